# Builds the xsim deterministic simulator against /repo's *working tree*.
# Every XCM source is compiled directly (no autotools, never from .libs) with
# -DERICSSON_XCM_VERIF, and linked with -Wl,--wrap=<sym> so that every libc
# entry XCM uses goes through the simulated kernel.
#
#   make FLAVOUR=asan   (default)  clang + ASan + UBSan
#   make FLAVOUR=tsan              XCM objects with -fsanitize=thread, harness without
#   make FLAVOUR=plain             no sanitizer (valgrind/gdb)
#   make FLAVOUR=cov               llvm source coverage of the XCM objects

REPO      ?= /repo
FLAVOUR   ?= asan
B         := build/$(FLAVOUR)
CC        := clang
CXX       := clang++

XCM_SRCS := \
	common/slist.c common/util.c \
	libxcm/core/attr_node.c libxcm/core/attr_path.c libxcm/core/attr_tree.c \
	libxcm/core/log.c libxcm/core/log_attr_tree.c libxcm/core/timer_mgr.c \
	libxcm/core/xcm.c libxcm/core/xcm_addr.c libxcm/core/xcm_addr_compat.c \
	libxcm/core/xcm_attr_map.c libxcm/core/xcm_compat.c libxcm/core/xcm_version.c \
	libxcm/core/xpoll.c \
	libxcm/tp/common/active_fd.c libxcm/tp/common/common_tp.c \
	libxcm/tp/common/dns_attr.c libxcm/tp/common/log_tp.c libxcm/tp/common/xcm_tp.c \
	libxcm/tp/dns/xcm_dns.c libxcm/tp/dns/xcm_dns_cares.c \
	libxcm/tp/tcp/tconnect.c libxcm/tp/tcp/tcp_attr.c \
	libxcm/tp/tcp/xcm_tp_btcp.c libxcm/tp/tcp/xcm_tp_tcp.c \
	libxcm/tp/ux/xcm_tp_ux.c \
	libxcm/tp/tls/cert.c libxcm/tp/tls/ctx_store.c libxcm/tp/tls/item.c \
	libxcm/tp/tls/log_tls.c libxcm/tp/tls/xcm_tp_btls.c \
	libxcm/tp/tls/xcm_tp_tls.c libxcm/tp/tls/xcm_tp_utls.c \
	libxcm/ctl/ctl.c common/common_ctl.c \
	libxcmctl/xcmc.c

RELAY_SRCS := tools/xcmrelay/main.c tools/xcmrelay/rserver.c \
	tools/xcmrelay/xrelay.c tools/common/attr.c

HARNESS_SRCS := $(wildcard xsim/*.cc)

GEN := build/gen
XCM_INC := -I$(GEN) -I$(REPO)/include -I$(REPO)/common \
	-I$(REPO)/libxcm/core -I$(REPO)/libxcm/tp/common -I$(REPO)/libxcm/tp/ux \
	-I$(REPO)/libxcm/tp/tcp -I$(REPO)/libxcm/tp/dns -I$(REPO)/libxcm/tp/tls \
	-I$(REPO)/libxcm/ctl -I$(REPO)/libxcmctl -I$(REPO)/tools/common \
	-I$(REPO)/tools/xcmrelay -Ixsim/stubinc

XCM_DEFS := -std=gnu99 -D_POSIX_C_SOURCE=200809L -D_BSD_SOURCE -D_DEFAULT_SOURCE \
	-D_GNU_SOURCE -DSYSCONFDIR='"/etc"' -DERICSSON_XCM_VERIF -Wno-unused-value \
	-Wno-deprecated-declarations -Wno-enum-conversion

ifeq ($(FLAVOUR),asan)
  SAN_XCM  := -fsanitize=address,undefined -fno-sanitize=shift-base -fno-sanitize-recover=undefined -fno-omit-frame-pointer
  SAN_H    := $(SAN_XCM)
  OPT      := -O1 -g
else ifeq ($(FLAVOUR),tsan)
  SAN_XCM  := -fsanitize=thread -fno-omit-frame-pointer
  SAN_H    :=
  SAN_LINK := -fsanitize=thread
  OPT      := -O1 -g
else ifeq ($(FLAVOUR),cov)
  SAN_XCM  := -fprofile-instr-generate -fcoverage-mapping
  SAN_H    :=
  SAN_LINK := -fprofile-instr-generate
  OPT      := -O0 -g
else
  SAN_XCM  :=
  SAN_H    :=
  OPT      := -O1 -g
endif
SAN_LINK ?= $(SAN_H)

WRAPS := fputs socket bind listen connect accept4 accept send recv close getsockname \
	getpeername getsockopt setsockopt fcntl poll epoll_create1 epoll_ctl eventfd \
	timerfd_create timerfd_settime clock_gettime stat lstat fopen unlink \
	opendir readdir closedir getpid getenv syscall abort exit __assert_fail \
	pthread_mutex_lock pthread_mutex_unlock \
	malloc realloc free strdup strndup vasprintf calloc \
	nanosleep usleep sleep select pselect ppoll epoll_wait epoll_pwait \
	recvfrom recvmsg sendto sendmsg read write perror \
	SSL_CTX_new SSL_CTX_free SSL_new SSL_free
ifeq ($(FLAVOUR),tsan)
  # preemption points at the detector's atomic entry points: a window between a relaxed load and store is then schedulable
  WRAPS += __tsan_atomic64_load __tsan_atomic64_store __tsan_atomic8_load __tsan_atomic8_store \
	__tsan_atomic32_load __tsan_atomic32_store __tsan_atomic64_fetch_add __tsan_atomic32_fetch_add
endif
WRAPFLAGS := $(foreach w,$(WRAPS),-Wl,--wrap=$(w))

XCM_OBJS   := $(patsubst %.c,$(B)/repo/%.o,$(XCM_SRCS))
RELAY_OBJS := $(patsubst %.c,$(B)/repo/%.o,$(RELAY_SRCS))
H_OBJS     := $(patsubst xsim/%.cc,$(B)/h/%.o,$(HARNESS_SRCS))

all: $(B)/xsim

$(GEN)/config.h: Makefile
	@mkdir -p $(GEN)
	@printf '#ifndef VERIF_CONFIG_H\n#define VERIF_CONFIG_H\n#define XCM_CARES 1\n#define XCM_CTL 1\n#define XCM_TLS 1\n#define HAVE_ARES_H 1\n#define HAVE_EVENT_H 1\n#define HAVE_OPENSSL_SSL_H 1\n#define PACKAGE_VERSION "verif"\n#endif\n' > $@

$(GEN)/xcm_version.h: $(REPO)/include/xcm_version.h.in $(REPO)/configure.ac Makefile
	@mkdir -p $(GEN)
	@python3 tools/genversion.py $(REPO) > $@

$(B)/repo/tools/xcmrelay/main.o: EXTRA := -Dmain=xcmrelay_main
$(B)/repo/libxcmctl/xcmc.o: EXTRA := -DUT_STD_ASSERT
$(B)/repo/tools/%.o: EXTRA += -DUT_STD_ASSERT

$(B)/repo/%.o: $(REPO)/%.c $(GEN)/config.h $(GEN)/xcm_version.h
	@mkdir -p $(dir $@)
	@$(CC) $(OPT) $(SAN_XCM) $(XCM_DEFS) $(XCM_INC) $(EXTRA) -MMD -MP -c $< -o $@

$(B)/h/%.o: xsim/%.cc $(wildcard xsim/*.h) $(GEN)/config.h $(GEN)/xcm_version.h
	@mkdir -p $(dir $@)
	@$(CXX) -std=c++17 $(OPT) $(SAN_H) -Wall -Wno-unused-function -Wno-deprecated-declarations -D_GNU_SOURCE -DXSIM_FLAVOUR_$(FLAVOUR) \
	  -I$(GEN) -I$(REPO)/include -I$(REPO)/common -I$(REPO)/libxcmctl -c $< -o $@

$(B)/xsim: $(XCM_OBJS) $(RELAY_OBJS) $(H_OBJS)
	@$(CXX) $(SAN_LINK) -rdynamic -o $@ $^ $(WRAPFLAGS) -lssl -lcrypto -lpthread

-include $(XCM_OBJS:.o=.d) $(RELAY_OBJS:.o=.d)

clean:
	rm -rf build

.PHONY: all clean
.SECONDARY:
