// Family "tls" (C09, C18): one application thread sets up 1-4 TLS connections one after the other
// (tls, btls, utls over its TLS leg), each with its own generated credentials and policy, earlier
// connections kept open or closed, with edits of the simulated file system / environment in between.
//  C09: an independent evaluator over the *generated* facts (who issued what, validity, revocation,
//       EKU, names) says for each side whether its policy must reject the peer; no application byte may
//       cross an unmet policy, invalid policy combinations must be refused with EINVAL.
//  C18: the identity each side presents (read on the other side) must be the one designated - by files
//       in the directory, per-socket files or by value - at the moment of the creating call.
#include "run.h"
#include "pki.h"
#include <cerrno>

namespace xs {

enum { ISS_R0 = 0, ISS_I0 = 1, ISS_R1 = 2 };
enum { SUP_DIR = 0, SUP_FILES = 1, SUP_VALUE = 2, SUP_MIXED = 3 };   // mixed: cert+key by value, the rest from the directory

struct Ident {
    std::unique_ptr<Cert> leaf;
    std::unique_ptr<Cert> twin;   // same issuer, validity, usage, names and revocation status, another key and common name ("<cn>-twin")
    int issuer = ISS_R0, validity = 0, eku = 0;
    bool revoked = false;
    std::string cn;
    std::vector<std::string> names;
};
struct TPki {
    std::unique_ptr<Cert> R0, R1, I0;
    bool inter_revoked = false;
    std::vector<Ident> ids;
    std::string crl_all;   // CRLs of R0, I0 and R1
};
struct SideCfg {
    int ident = 0, tc_mask = 1, supply = SUP_DIR;
    bool auth = true, check_time = true, check_crl = false, verify_name = false;
    int names_kind = 0;        // 0 the peer's name, 1 another name, 2 several incl. the peer's (case-changed), 3 empty list
    int invalid = 0;           // 0 none; 1 verify_name without auth, 2 peer_names without verify_name, 3 tc without auth, 4 crl without check_crl, 5 check_crl without auth
};
struct Setup {
    SideCfg cli, srv;
    bool accept_override = false, keep_open = false, reversed = false;
    int cli_ns = 0;              // the connecting thread's network namespace has a name: 1 entry in /run/netns is a (bind-mounted) file, 2 a symbolic link
    int flips = 0;               // the client's credential files are rewritten (to the twin identity and back) this many times *while the library loads them*, once per load attempt
    bool accept_relax = false;   // the server got its whole policy (with explicit CA / CRL / names) at creation; the accept map switches one feature off
    std::string tp;
    int edit_before = 0;       // 0 none, 1 rewrite in place (equal size), 2 write-new + rename over, 3 symlink flip, 4 environment switch
};
struct TCtx {
    TPki pki;
    std::vector<Setup> setups;
    int dir_gen = 0;           // which of /certA, /certB the symlink / environment names
    std::vector<XSock *> open;
};
static TCtx *TX = nullptr;

static void gen(uint64_t seed, const std::string &prop, Plan &plan) {
    Rng r(mix64(seed, 0x7157));
    plan.family = "tls";
    plan.prop = prop;
    plan.seed = seed;
    gen_common_knobs(r, plan, false);
    auto &p = plan.p;
    p["yield_pm"] = 0;
    p["seg_policy"] = (int64_t)r.below(2);
    if (p["tcp_buf"] < 8192) p["tcp_buf"] = 65536;
    if (p["latency_us"] > 2000) p["latency_us"] = 300;
    p["inter_revoked"] = r.chance(0.15);
    int nid = 4;
    for (int i = 0; i < nid; i++) {
        int iss = (int)r.below(10); iss = iss < 5 ? ISS_R0 : iss < 8 ? ISS_I0 : ISS_R1;
        int val = (int)r.below(10); val = val < 7 ? 0 : val < 9 ? 1 : 2;
        int eku = (int)r.below(10); eku = eku < 5 ? 0 : eku < 7 ? 3 : eku - 6;   // 0 none, 3 both, 1 client, 2 server, 3..
        if (eku > 4) eku = 4;
        plan.ops.push_back(Op{0, "ident", {iss, val, eku, (int64_t)r.chance(0.2)}, "", {}, -1});
    }
    int nset = (int)r.range(1, 4);
    for (int i = 0; i < nset; i++) {
        Op o{0, "setup", {}, "", {}};
        static const char *tps[] = {"tls", "btls", "utls"};
        o.s = tps[r.below(3)];
        for (int side = 0; side < 2; side++) {
            o.n.push_back((int64_t)r.below((uint64_t)nid));                // ident
            o.n.push_back((int64_t)(r.chance(0.7) ? 1 : r.chance(0.5) ? 3 : 2));  // tc mask
            o.n.push_back((int64_t)r.below(4));                            // supply
            o.n.push_back((int64_t)r.chance(0.85));                        // auth
            o.n.push_back((int64_t)r.chance(0.75));                        // check_time
            o.n.push_back((int64_t)r.chance(0.35));                        // check_crl
            o.n.push_back((int64_t)r.chance(0.3));                         // verify_name
            o.n.push_back((int64_t)r.below(4));                            // names kind
            o.n.push_back((int64_t)(r.chance(0.08) ? 1 + r.below(5) : 0)); // invalid combination
        }
        o.n.push_back((int64_t)r.chance(0.3));   // accept override
        o.n.push_back((int64_t)r.chance(0.5));   // keep open
        o.n.push_back((int64_t)r.chance(0.1));   // reversed TLS roles
        o.n.push_back((int64_t)(r.chance(0.5) ? r.below(5) : 0));   // edit before
        o.n.push_back((int64_t)r.chance(0.2));   // the xcm_accept_a map switches one feature of the server's policy off
        o.n.push_back((int64_t)(r.chance(0.3) ? 1 + r.below(2) : 0));   // named network namespace on the connecting side
        o.n.push_back((int64_t)(r.chance(0.25) ? 1 + r.below(6) : 0));  // credential files rewritten while they are being loaded: this many consecutive load attempts see a change
        plan.ops.push_back(o);
    }
    p["step_budget"] = 900000;
}

// ------------------------------------------------------------------ PKI and file layout
static void build_pki(const Plan &plan) {
    TPki &k = TX->pki;
    CertSpec r0; r0.cn = "root0"; r0.is_ca = true; r0.serial = 1;
    k.R0 = make_cert(r0, nullptr);
    CertSpec r1; r1.cn = "root1"; r1.is_ca = true; r1.serial = 1;
    k.R1 = make_cert(r1, nullptr);
    CertSpec i0; i0.cn = "inter0"; i0.is_ca = true; i0.serial = 50;
    k.I0 = make_cert(i0, k.R0.get());
    k.inter_revoked = plan.P("inter_revoked") != 0;
    long serial = 100;
    std::vector<long> rev[3];
    for (auto &op : plan.ops) {
        if (op.kind != "ident") continue;
        Ident id;
        id.issuer = (int)op.arg(0); id.validity = (int)op.arg(1); id.eku = (int)op.arg(2); id.revoked = op.arg(3) != 0;
        id.cn = strf("id%zu", k.ids.size());
        id.names = {id.cn + ".example", "shared.example"};
        CertSpec s;
        s.cn = id.cn; s.serial = serial++; s.san_dns = id.names; s.eku = id.eku;
        if (id.validity == 1) { s.not_before = -400 * 86400; s.not_after = -10 * 86400; }
        else if (id.validity == 2) { s.not_before = 10 * 86400; s.not_after = 400 * 86400; }
        const Cert *iss = id.issuer == ISS_R0 ? k.R0.get() : id.issuer == ISS_I0 ? k.I0.get() : k.R1.get();
        id.leaf = make_cert(s, iss);
        if (id.revoked) rev[id.issuer].push_back(s.serial);
        CertSpec tw = s;
        tw.cn = id.cn + "-twin"; tw.serial = serial++;
        id.twin = make_cert(tw, iss);
        if (id.revoked) rev[id.issuer].push_back(tw.serial);
        k.ids.push_back(std::move(id));
    }
    if (k.inter_revoked) rev[ISS_R0].push_back(50);
    k.crl_all = make_crl(*k.R0, rev[ISS_R0], -86400, 30 * 86400) + make_crl(*k.I0, rev[ISS_I0], -86400, 30 * 86400) + make_crl(*k.R1, rev[ISS_R1], -86400, 30 * 86400);
}
static std::string cert_pem(const Ident &id) { return id.leaf->cert_pem + (id.issuer == ISS_I0 ? TX->pki.I0->cert_pem : std::string()); }
static std::string tc_pem(int mask) { return std::string(mask & 1 ? TX->pki.R0->cert_pem : "") + (mask & 2 ? TX->pki.R1->cert_pem : ""); }
static std::string pad_to(std::string s, size_t n) { while (s.size() < n) s += '\n'; return s; }

static std::string cur_dir() { return TX->dir_gen ? "/certB" : "/certA"; }

// writes a credential set into a directory; all files are padded to a fixed size so that an in-place rewrite never changes st_size
static void write_set(const std::string &dir, const SideCfg &c, int how, const std::string &ns = "", bool twin = false) {
    const Ident &id = TX->pki.ids[(size_t)c.ident];
    const Cert &leaf = twin ? *id.twin : *id.leaf;
    struct F { const char *name; std::string data; } files[] = {{"cert", pad_to(leaf.cert_pem + (id.issuer == ISS_I0 ? TX->pki.I0->cert_pem : std::string()), 2600)}, {"key", pad_to(leaf.key_pem, 400)}, {"tc", pad_to(tc_pem(c.tc_mask), 1400)}, {"crl", pad_to(TX->pki.crl_all, 2200)}};
    K->mkdir_p(dir);
    for (auto &f : files) {
        std::string path = dir + "/" + f.name + (ns.empty() ? "" : "_" + ns) + ".pem";   // per-namespace naming: cert_<ns>.pem
        if (how == 2) { K->write_file(path + ".new", f.data, true); K->rename_over(path + ".new", path); }
        else K->write_file(path, f.data, false);
    }
}

// ------------------------------------------------------------------ the independent policy evaluator
static bool tls_client_side(bool connect_side, bool reversed) { return connect_side != reversed; }
static std::vector<std::string> expected_names(const SideCfg &s, const Ident &peer) {
    switch (s.names_kind) {
    case 0: return {peer.names[0]};
    case 1: return {"somebody-else.example"};
    case 2: { std::string up = peer.names[0]; for (auto &ch : up) ch = (char)toupper(ch); return {"x.example", up, "y.example"}; }
    default: return {"nobody.example", "nothing.example"};
    }
}
static bool must_fail(const SideCfg &s, const Ident &peer, bool s_is_tls_client) {
    if (!s.auth) return false;
    bool trusted = peer.issuer == ISS_R1 ? (s.tc_mask & 2) != 0 : (s.tc_mask & 1) != 0;
    if (!trusted) return true;
    if (s.check_time && peer.validity != 0) return true;
    if (s.check_crl && (peer.revoked || (peer.issuer == ISS_I0 && TX->pki.inter_revoked))) return true;
    if (peer.eku != 0) {
        bool has_client = peer.eku == 1 || peer.eku == 3, has_server = peer.eku == 2 || peer.eku == 3;
        if (s_is_tls_client ? !has_server : !has_client) return true;
    }
    if (s.verify_name) {
        bool hit = false;
        for (auto &e : expected_names(s, peer)) for (auto &n : peer.names) if (strcasecmp(e.c_str(), n.c_str()) == 0) hit = true;
        if (strcasecmp(peer.cn.c_str(), "") != 0) for (auto &e : expected_names(s, peer)) if (strcasecmp(e.c_str(), peer.cn.c_str()) == 0) hit = true;
        if (!hit) return true;
    }
    return false;
}

// ------------------------------------------------------------------ attribute maps
static struct xcm_attr_map *attrs_for(const SideCfg &c, const Ident &peer, bool stream, int tls_client /* -1 default */, bool policy_part, bool cred_part, const std::string &files_dir, bool crl_only = false) {
    struct xcm_attr_map *m = xcm_attr_map_create();
    if (stream) xcm_attr_map_add_str(m, "xcm.service", "bytestream");
    const Ident &id = TX->pki.ids[(size_t)c.ident];
    if (crl_only && c.check_crl && c.auth) {
        // (policy given in xcm_accept_a: the CRL goes with the policy that asks for it)
        if (c.supply == SUP_FILES) xcm_attr_map_add_str(m, "tls.crl_file", (files_dir + "/crl.pem").c_str());
        else if (c.supply == SUP_VALUE) xcm_attr_map_add_bin(m, "tls.crl", TX->pki.crl_all.data(), TX->pki.crl_all.size());
    }
    if (cred_part) {
        bool with_crl = policy_part;
        if (c.supply == SUP_FILES) {
            xcm_attr_map_add_str(m, "tls.cert_file", (files_dir + "/cert.pem").c_str());
            xcm_attr_map_add_str(m, "tls.key_file", (files_dir + "/key.pem").c_str());
            if (c.auth && c.invalid != 3) xcm_attr_map_add_str(m, "tls.tc_file", (files_dir + "/tc.pem").c_str());
            if (c.check_crl && c.auth && with_crl) xcm_attr_map_add_str(m, "tls.crl_file", (files_dir + "/crl.pem").c_str());
        } else if (c.supply == SUP_VALUE || c.supply == SUP_MIXED) {
            std::string cp = cert_pem(id);
            xcm_attr_map_add_bin(m, "tls.cert", cp.data(), cp.size());
            xcm_attr_map_add_bin(m, "tls.key", id.leaf->key_pem.data(), id.leaf->key_pem.size());
            if (c.supply == SUP_VALUE) {
                std::string tc = tc_pem(c.tc_mask);
                if (c.auth && c.invalid != 3) xcm_attr_map_add_bin(m, "tls.tc", tc.data(), tc.size());
                if (c.check_crl && c.auth && with_crl) xcm_attr_map_add_bin(m, "tls.crl", TX->pki.crl_all.data(), TX->pki.crl_all.size());
            }
        }
    }
    if (policy_part) {
        bool auth = c.auth, crl = c.check_crl, vn = c.verify_name;
        if (c.invalid == 1) { auth = false; vn = true; }
        if (c.invalid == 5) { auth = false; crl = true; }
        xcm_attr_map_add_bool(m, "tls.auth", auth);
        xcm_attr_map_add_bool(m, "tls.check_time", c.check_time);
        xcm_attr_map_add_bool(m, "tls.check_crl", crl && (auth || c.invalid == 5));
        xcm_attr_map_add_bool(m, "tls.verify_peer_name", vn && (auth || c.invalid == 1));
        if ((vn && auth) || c.invalid == 2) {
            std::string names;
            for (auto &e : expected_names(c, peer)) names += (names.empty() ? "" : ":") + e;
            if (c.invalid == 2) xcm_attr_map_add_bool(m, "tls.verify_peer_name", false);
            xcm_attr_map_add_str(m, "tls.peer_names", names.c_str());
        }
        if (c.invalid == 3) { xcm_attr_map_add_bool(m, "tls.auth", false); std::string tc = tc_pem(1); xcm_attr_map_add_bin(m, "tls.tc", tc.data(), tc.size()); }
        if (c.invalid == 4) { xcm_attr_map_add_bool(m, "tls.check_crl", false); xcm_attr_map_add_bin(m, "tls.crl", TX->pki.crl_all.data(), TX->pki.crl_all.size()); }
        if (tls_client >= 0) xcm_attr_map_add_bool(m, "tls.client", tls_client != 0);
    }
    return m;
}

static std::string peer_cn(XSock *x) {
    char buf[256] = "";
    ApiScope a("xcm_attr_get_str", x, x->nonblocking);
    if (xcm_attr_get_str(x->s, "tls.peer.cert.subject.cn", buf, sizeof(buf)) < 0) return "";
    return buf;
}

struct SideRun { XSock *x = nullptr; bool est = false, got_tag = false, tag_sent = false; int term = 0; bool eof = false; std::string seen_cn; };

static void step_side(SideRun &me, const std::string &my_tag, const std::string &peer_tag, bool stream) {
    XSock *x = me.x;
    if (!x || x->closed || me.term || me.eof) return;
    int rc = x_finish(x);
    if (rc == 0) { if (!me.est) { me.est = true; me.seen_cn = peer_cn(x); } }
    else if (errno != EAGAIN) { me.term = errno; return; }
    if (!me.tag_sent) {
        rc = x_send(x, my_tag.data(), my_tag.size());
        if (rc >= 0) me.tag_sent = true;
        else if (errno != EAGAIN) { me.term = errno; return; }
    }
    uint8_t buf[128];
    rc = x_receive(x, buf, sizeof(buf));
    if (rc > 0) { if ((size_t)rc >= 4 && memcmp(buf, peer_tag.data(), 4) == 0) me.got_tag = true; }
    else if (rc == 0) me.eof = true;
    else if (errno != EAGAIN) me.term = errno;
    (void)stream;
}

static void program(const Plan *pl) {
    (void)pl;
    int port = 7700;
    int sidx = 0;
    for (auto &st : TX->setups) {
        if (G->stopping) break;
        sidx++;
        bool stream = st.tp == "btls";
        const Ident &cid = TX->pki.ids[(size_t)st.cli.ident], &sid = TX->pki.ids[(size_t)st.srv.ident];
        // ---- file system / environment as designated for this set-up
        if (st.edit_before == 3 || st.edit_before == 4) TX->dir_gen ^= 1;
        std::string ddir = cur_dir();
        // the directory holds the server's material in default naming and the client's under the client's namespace-free names in a sub-directory
        // (both ends live in one process: the client always gets its material per socket or from /cli-<n>)
        write_set(ddir, st.srv, st.edit_before == 2 ? 2 : 1);
        if (st.edit_before == 3) { K->remove_path("/cert"); K->symlink(ddir, "/cert"); K->env["XCM_TLS_CERT"] = "/cert"; }
        else K->env["XCM_TLS_CERT"] = ddir;
        std::string sfiles = strf("/cred/s%d", sidx), cfiles = strf("/cred/c%d", sidx);
        write_set(sfiles, st.srv, 1);
        write_set(cfiles, st.cli, 1);
        std::string addr = strf("%s:127.0.0.1:%d", st.tp.c_str(), port++);
        // ---- server
        struct xcm_attr_map *sm = attrs_for(st.srv, cid, stream, st.reversed ? 1 : -1, !st.accept_override, true, sfiles);
        XSock *srv = x_server(addr, sm, true, strf("srv%d", sidx));
        int srv_errno = errno;
        xcm_attr_map_destroy(sm);
        bool srv_invalid = st.srv.invalid != 0 && !st.accept_override;
        if (!srv->s) {
            if (srv_invalid && srv_errno != EINVAL) G->violation("C09.invalid_combination_errno", "xcm_server_a with an invalid TLS policy combination (%d) failed with %s, expected EINVAL", st.srv.invalid, strerror(srv_errno));
            else if (!srv_invalid) G->violation("HARNESS.tls_server", "set-up %d: xcm_server_a failed: %s", sidx, strerror(srv_errno));
            continue;
        }
        if (srv_invalid) { G->violation("C09.invalid_combination_accepted", "xcm_server_a accepted an invalid TLS policy combination (%d: %s)", st.srv.invalid, st.srv.invalid == 1 ? "verify_peer_name without auth" : st.srv.invalid == 2 ? "peer_names without verify_peer_name" : st.srv.invalid == 3 ? "trusted CAs without auth" : st.srv.invalid == 4 ? "CRL without check_crl" : "check_crl without auth"); x_close(srv); continue; }
        TX->open.push_back(srv);
        // ---- client: the directory now names the *client's* material when it relies on it (same process, so switch for the call)
        SideCfg cc = st.cli;
        if (cc.supply == SUP_DIR || cc.supply == SUP_MIXED) {
            // a directory of its own for the client side, designated through the environment at the time of the call
            std::string cdir = strf("/cdir%d", sidx);
            SideCfg decoy = cc;
            if (cc.supply == SUP_MIXED) decoy.ident = (cc.ident + 1) % (int)TX->pki.ids.size();   // the directory's own cert/key are somebody else's: by-value must win
            if (st.cli_ns) {
                // the connecting thread lives in a named network namespace: /run/netns/blue is a bind-mounted file or a symbolic link
                // to the namespace file; the directory holds the designated material under the namespace's names and somebody
                // else's under the default names
                K->mkdir_p("/run/netns");
                K->remove_path("/run/netns/blue");
                if (st.cli_ns == 1) { K->write_file("/run/netns/blue", "", true); K->fs["/run/netns/blue"].dev = 4; K->fs["/run/netns/blue"].ino = 4026531001ULL; }
                else { K->mkdir_p("/nsfs"); K->write_file("/nsfs/net1", "", false); K->fs["/nsfs/net1"].dev = 4; K->fs["/nsfs/net1"].ino = 4026531001ULL; K->symlink("/nsfs/net1", "/run/netns/blue"); }
                write_set(cdir, decoy, 1, "blue");
                SideCfg wrong = decoy;
                wrong.ident = (decoy.ident + 2) % (int)TX->pki.ids.size();
                if (wrong.ident == cc.ident) wrong.ident = (wrong.ident + 1) % (int)TX->pki.ids.size();
                write_set(cdir, wrong, 1);
                G->count(st.cli_ns == 1 ? "probe.netns_named_by_file" : "probe.netns_named_by_symlink");
            } else write_set(cdir, decoy, 1);
            K->env["XCM_TLS_CERT"] = cdir;
        }
        struct xcm_attr_map *cm = attrs_for(cc, sid, stream, st.reversed ? 0 : -1, true, true, cfiles);
        {
            Task *t = cur();
            int saved = t->netns;
            if (st.tp == "utls" || st.cli_ns) t->netns = 1;
            bool gen_twin = false;   // which of the two equivalent identities the client's files hold
            int flips_left = st.flips;
            std::string flip_dir = cc.supply == SUP_DIR ? strf("/cdir%d", sidx) : cfiles;
            if (st.flips) {
                K->on_lib_fopen = [&](const char *path) {
                    // every load attempt opens the key once: the set changes under it, attempt after attempt
                    std::string pth = path;
                    if (flips_left <= 0 || pth.compare(0, flip_dir.size(), flip_dir) != 0 || pth.size() < 7 || pth.compare(pth.size() - 7, 7, "key.pem") != 0) return;
                    flips_left--;
                    gen_twin = !gen_twin;
                    write_set(flip_dir, cc, 1, "", gen_twin);
                    G->count("fault.credentials_rewritten_during_load");
                };
            }
            XSock *cli = x_connect(addr, cm, true, strf("cli%d", sidx));
            K->on_lib_fopen = nullptr;
            t->netns = saved;
            if (st.cli_ns) K->remove_path("/run/netns/blue");   // (the name is looked up when the socket is created; later set-ups live in an unnamed namespace again)
            int cli_errno = errno;
            xcm_attr_map_destroy(cm);
            K->env["XCM_TLS_CERT"] = st.edit_before == 3 ? "/cert" : ddir;
            if (!cli->s) {
                if (st.flips - flips_left > 0 && !cc.invalid)
                    G->violation("C18.unusable_after_rewrite", "set-up %d: xcm_connect_a failed with %s; its credential files were rewritten %d time(s) while it loaded them, but held a complete, valid set (of one of two equivalent identities) at every instant", sidx, strerror(cli_errno), st.flips - flips_left);
                if (cc.invalid && cli_errno != EINVAL) G->violation("C09.invalid_combination_errno", "xcm_connect_a with an invalid TLS policy combination (%d) failed with %s, expected EINVAL", cc.invalid, strerror(cli_errno));
                else if (!cc.invalid && cli_errno != EPROTO) G->violation("HARNESS.tls_connect", "set-up %d: xcm_connect_a failed: %s", sidx, strerror(cli_errno));
                continue;
            }
            if (cc.invalid) { G->violation("C09.invalid_combination_accepted", "xcm_connect_a accepted an invalid TLS policy combination (%d)", cc.invalid); x_close(cli); continue; }
            TX->open.push_back(cli);
            // ---- run the handshake; both sides offer a tagged message as early as the API lets them
            SideRun C, S;
            C.x = cli;
            SideCfg eff_srv = st.srv;   // the policy in force on the accepted connection
            const char *relaxed = "";
            int relax_kind = !st.accept_relax ? 0 : st.srv.check_crl ? 1 : st.srv.verify_name ? 2 : 3;
            if (relax_kind == 1) { eff_srv.check_crl = false; relaxed = "tls.check_crl=false"; }
            else if (relax_kind == 2) { eff_srv.verify_name = false; relaxed = "tls.verify_peer_name=false"; }
            else if (relax_kind == 3) { eff_srv.auth = false; relaxed = "tls.auth=false"; }
            std::string ctag = strf("CTAG-%d-from-client", sidx), stag = strf("STAG-%d-from-server", sidx);
            bool accept_failed = false;
            for (int round = 0; round < 120 && !G->stopping; round++) {
                if (!S.x && !accept_failed) {
                    struct xcm_attr_map *am = st.accept_override ? attrs_for(st.srv, cid, false, st.reversed ? 1 : -1, true, false, sfiles, true) : nullptr;
                    if (st.accept_relax) {
                        // values inherited from the server that the override makes unnecessary (the CA bundle without authentication,
                        // the CRL without the CRL check, the names without the name check) are not a contradiction
                        am = xcm_attr_map_create();
                        xcm_attr_map_add_bool(am, relax_kind == 1 ? "tls.check_crl" : relax_kind == 2 ? "tls.verify_peer_name" : "tls.auth", false);
                    }
                    if (am && stream) { /* service is inherited */ }
                    XSock *a = x_accept(srv, am, strf("acc%d", sidx));
                    int ae = errno;
                    if (am) xcm_attr_map_destroy(am);
                    if (a) { S.x = a; TX->open.push_back(a); }
                    else if (ae != EAGAIN) {
                        accept_failed = true;
                        if (st.accept_relax && ae == EINVAL)
                            G->violation("C11.accept_override_refused", "xcm_accept_a with %s in its map failed with EINVAL on a server that was given its CA bundle, CRL and peer names explicitly: an inherited value that the override makes unnecessary is treated as a contradiction", relaxed);
                        if (st.accept_override && st.srv.invalid) { if (ae != EINVAL) G->violation("C09.invalid_combination_errno", "xcm_accept_a with an invalid TLS policy combination (%d) failed with %s, expected EINVAL", st.srv.invalid, strerror(ae)); }
                        else S.term = ae;
                    }
                }
                step_side(C, ctag, stag, stream);
                if (S.x) step_side(S, stag, ctag, stream);
                if ((C.term || C.eof) && (S.term || S.eof || accept_failed)) break;
                if (C.got_tag && S.got_tag) break;
                task_sleep(500 * US);
            }
            if (st.accept_override && st.srv.invalid && S.x) { G->violation("C09.invalid_combination_accepted", "xcm_accept_a accepted an invalid TLS policy combination (%d)", st.srv.invalid); }
            bool judge = !(st.accept_override && st.srv.invalid);
            // ---- C09 invariants
            if (judge) {
                bool mf_c = must_fail(cc, sid, tls_client_side(true, st.reversed)), mf_s = must_fail(eff_srv, cid, tls_client_side(false, st.reversed));
                std::string ctx = strf("[set-up %d %s: client presents %s (issuer %d validity %d eku %d revoked %d), server presents %s (issuer %d validity %d eku %d revoked %d)%s; client policy auth=%d time=%d crl=%d name=%d/%d tc=%d; server policy auth=%d time=%d crl=%d name=%d/%d tc=%d%s%s]",
                                       sidx, st.tp.c_str(), cid.cn.c_str(), cid.issuer, cid.validity, cid.eku, (int)cid.revoked, sid.cn.c_str(), sid.issuer, sid.validity, sid.eku, (int)sid.revoked, TX->pki.inter_revoked ? ", intermediate revoked" : "",
                                       (int)cc.auth, (int)cc.check_time, (int)cc.check_crl, (int)cc.verify_name, cc.names_kind, cc.tc_mask, (int)st.srv.auth, (int)st.srv.check_time, (int)st.srv.check_crl, (int)st.srv.verify_name, st.srv.names_kind, st.srv.tc_mask,
                                       st.accept_override ? ", policy given in xcm_accept_a" : "", st.reversed ? ", TLS roles reversed" : "");
                G->count("probe.tls_policy_judged");
                if (mf_c) G->count("probe.tls_client_must_fail");
                if (mf_s) G->count("probe.tls_server_must_fail");
                if (mf_c && (C.est || C.got_tag))
                    G->violation("C09.fail_open", "the connecting side became usable (%s) although the server's certificate does not satisfy its policy %s", C.got_tag ? "application data delivered" : "xcm_finish returned 0", ctx.c_str());
                if (mf_s && (S.est || S.got_tag))
                    G->violation("C09.fail_open", "the accepting side became usable (%s) although the client's certificate does not satisfy its policy %s", S.got_tag ? "application data delivered" : "xcm_finish returned 0", ctx.c_str());
                if (mf_c && S.got_tag) G->violation("C09.data_sent_despite_policy", "the connecting side's application message reached the peer although the connecting side's policy is not met %s", ctx.c_str());
                if (mf_s && C.got_tag) G->violation("C09.data_sent_despite_policy", "the accepting side's application message reached the peer although the accepting side's policy is not met %s", ctx.c_str());
                if (mf_c && C.term && C.term != EPROTO) G->violation("C09.errno", "the connecting side's unmet policy was reported as %s, not EPROTO %s", strerror(C.term), ctx.c_str());
                if (mf_s && S.term && S.term != EPROTO && !mf_c) G->violation("C09.errno", "the accepting side's unmet policy was reported as %s, not EPROTO %s", strerror(S.term), ctx.c_str());
                if (!mf_c && !mf_s) {
                    // nothing forbids this connection: a guard against a vacuous pass, and C18's identity check
                    if (!(C.est && S.est && C.got_tag && S.got_tag)) G->violation("HARNESS.tls_should_establish", "no policy forbids this connection, yet it did not establish / exchange (client est=%d got=%d term=%s; server est=%d got=%d term=%s) %s", (int)C.est, (int)C.got_tag, strerror(C.term), (int)S.est, (int)S.got_tag, strerror(S.term), ctx.c_str());
                    else {
                        G->count("probe.tls_established");
                        // C18: each side presents the identity designated at the time of its creating call
                        if ((tls_client_side(true, st.reversed) || cc.auth) && C.seen_cn != sid.cn) G->violation("C18.wrong_identity", "set-up %d: the server socket was created with %s designated (%s), the client sees \"%s\" %s", sidx, sid.cn.c_str(), st.srv.supply == SUP_DIR ? "directory files" : st.srv.supply == SUP_FILES ? "per-socket files" : st.srv.supply == SUP_VALUE ? "by value" : "cert+key by value, rest from the directory", C.seen_cn.c_str(), ctx.c_str());
                        if ((tls_client_side(false, st.reversed) || eff_srv.auth) && S.seen_cn != cid.cn && !(st.flips && S.seen_cn == cid.cn + "-twin")) G->violation("C18.wrong_identity", "set-up %d: the client connected with %s designated (%s), the server sees \"%s\" %s", sidx, cid.cn.c_str(), cc.supply == SUP_DIR ? "directory files" : cc.supply == SUP_FILES ? "per-socket files" : cc.supply == SUP_VALUE ? "by value" : "cert+key by value, rest from the directory", S.seen_cn.c_str(), ctx.c_str());
                    }
                }
            }
            // ---- the files were rewritten while the first socket loaded them: whatever that load ended up with, a socket created
            //      now, with the files at rest, presents what they hold now (a context cached from a torn read must not be reused)
            if (st.flips && judge && !st.accept_override && !st.accept_relax && C.est && S.est && !S.seen_cn.empty() && (tls_client_side(false, st.reversed) || eff_srv.auth) && !G->stopping) {
                struct xcm_attr_map *cm2 = attrs_for(cc, sid, stream, st.reversed ? 0 : -1, true, true, cfiles);
                std::string saved_env = K->env["XCM_TLS_CERT"];
                if (cc.supply == SUP_DIR) K->env["XCM_TLS_CERT"] = flip_dir;
                int saved2 = t->netns;
                if (st.tp == "utls") t->netns = 1;   // (utls: the other namespace makes it take its TLS leg, as for the first connection)
                XSock *cli2 = x_connect(addr, cm2, true, strf("cli%d.again", sidx));
                t->netns = saved2;
                K->env["XCM_TLS_CERT"] = saved_env;
                xcm_attr_map_destroy(cm2);
                if (cli2->s) {
                    SideRun C2, S2;
                    C2.x = cli2;
                    std::string ctag2 = strf("CTG2-%d", sidx), stag2 = strf("STG2-%d", sidx);
                    for (int round = 0; round < 120 && !G->stopping; round++) {
                        if (!S2.x) { XSock *a = x_accept(srv, nullptr, strf("acc%d.again", sidx)); if (a) S2.x = a; else if (errno != EAGAIN) break; }
                        step_side(C2, ctag2, stag2, stream);
                        if (S2.x) step_side(S2, stag2, ctag2, stream);
                        if (C2.term || C2.eof || S2.term || S2.eof || (C2.got_tag && S2.got_tag)) break;
                        task_sleep(500 * US);
                    }
                    std::string want = cid.cn + (gen_twin ? "-twin" : "");
                    G->count("probe.tls_followup_after_torn_load");
                    if (!S2.est) G->violation("C18.unusable_after_rewrite", "set-up %d: the credential files were rewritten %d time(s) while an earlier socket loaded them and have been at rest since (a complete, valid set of \"%s\"); a new connection with the same designation fails (client %s, server %s)", sidx, st.flips, want.c_str(), strerror(C2.term), strerror(S2.term));
                    else if (S2.seen_cn != want) G->violation("C18.wrong_identity", "set-up %d: the client's files hold \"%s\" (rewritten %d time(s) while an earlier socket loaded them, at rest since); a socket created now presents \"%s\"", sidx, want.c_str(), st.flips, S2.seen_cn.c_str());
                    if (S2.x) x_close(S2.x);
                    x_close(cli2);
                } else G->violation("C18.unusable_after_rewrite", "set-up %d: xcm_connect_a with credential files at rest (rewritten during an earlier load) failed: %s", sidx, strerror(errno));
            }
            // ---- established connections never change identity: overwrite the designated files and look again
            if (C.est && S.est && st.keep_open) {
                SideCfg other = st.srv;
                other.ident = (st.srv.ident + 1) % (int)TX->pki.ids.size();
                write_set(ddir, other, 1);
                write_set(sfiles, other, 1);
                std::string again = peer_cn(cli);
                if (again != C.seen_cn) G->violation("C18.identity_changed", "set-up %d: the peer identity of an established connection changed from \"%s\" to \"%s\" after the credential files were rewritten", sidx, C.seen_cn.c_str(), again.c_str());
                write_set(ddir, st.srv, 1);
                write_set(sfiles, st.srv, 1);
            }
            if (!st.keep_open) { if (S.x) x_close(S.x); x_close(cli); x_close(srv); }
        }
    }
    for (auto *x : TX->open) x_close(x);
}

static void setup(const Plan &plan) {
    delete TX;
    TX = new TCtx();
    K->mkdir_p("/certA"); K->mkdir_p("/certB"); K->mkdir_p("/cred");
    build_pki(plan);
    for (auto &op : plan.ops) {
        if (op.kind != "setup") continue;
        Setup st;
        st.tp = op.s;
        SideCfg *sides[2] = {&st.cli, &st.srv};
        for (int s = 0; s < 2; s++) {
            SideCfg &c = *sides[s];
            size_t b = (size_t)s * 9;
            c.ident = (int)op.arg(b) % (int)TX->pki.ids.size(); c.tc_mask = (int)op.arg(b + 1, 1); c.supply = (int)op.arg(b + 2); c.auth = op.arg(b + 3, 1) != 0; c.check_time = op.arg(b + 4, 1) != 0;
            c.check_crl = op.arg(b + 5) != 0 && c.auth; c.verify_name = op.arg(b + 6) != 0 && c.auth; c.names_kind = (int)op.arg(b + 7); c.invalid = (int)op.arg(b + 8);
        }
        if (st.srv.supply == SUP_MIXED) st.srv.supply = SUP_DIR;   // (the server's directory is the process-wide one)
        st.accept_override = op.arg(18) != 0; st.keep_open = op.arg(19) != 0; st.reversed = op.arg(20) != 0; st.edit_before = (int)op.arg(21);
        st.cli_ns = (st.cli.supply == SUP_DIR || st.cli.supply == SUP_MIXED) ? (int)op.arg(23) : 0;
        st.flips = (st.cli_ns == 0 && (st.cli.supply == SUP_DIR || st.cli.supply == SUP_FILES) && !st.cli.invalid) ? (int)op.arg(24) : 0;
        st.accept_relax = op.arg(22) != 0 && !st.accept_override && !st.srv.invalid && st.srv.auth;
        if (st.srv.invalid && st.cli.invalid) st.cli.invalid = 0;
        TX->setups.push_back(st);
    }
    G->alias["C08.leak_ssl_ctx"] = "C18.context_not_released";
    const Plan *pl = &G->plan;
    G->spawn("app", [pl] { program(pl); }, 1, 0);
}

static void finalize(const Plan &plan, EndReason r) {
    if (r == EndReason::QUIESCENT) G->violation("HARNESS.tls_stuck", "tls program stuck: %s", G->tasks[0]->parked_why.c_str());
    else if (r == EndReason::BUDGET) G->violation("C09.spin", "step budget exhausted (%llu steps)", (unsigned long long)G->steps);
    g_run_nontrivial = G->stat.count("probe.tls_policy_judged") > 0;
    (void)plan;
}

static struct Reg_tls { Reg_tls() { register_family(Family{"tls", gen, setup, finalize, nullptr, nullptr}); } } reg;

}  // namespace xs
