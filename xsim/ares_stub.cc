// c-ares stub (STUB component): the event-driven contract XCM's xcm_dns_cares.c relies on, answered
// from the plan's resolver table over the simulated clock. One simulated descriptor per channel.
#include "kernel.h"
#include "hooks.h"
#include <ares.h>
#include <arpa/inet.h>
#include <cerrno>

using namespace xs;

namespace xs {
std::map<std::string, DnsAnswer> *DNS = nullptr;
void dns_reset() {
    if (!DNS) DNS = new std::map<std::string, DnsAnswer>();
    DNS->clear();
}
}  // namespace xs

struct StubChannel {
    int timeout_ms = 5000;
    int tries = 4;
    bool pending = false;
    bool answered = false;      // answer has arrived (readable)
    int fd = -1;
    std::shared_ptr<StubFd> sfd;
    std::string name;
    ares_addrinfo_callback cb = nullptr;
    void *arg = nullptr;
    DnsAnswer ans;
    Time started = 0;
    int try_no = 0;
    Time next_timeout = 0;
    int timeouts = 0;
    std::shared_ptr<bool> alive = std::make_shared<bool>(true);
};

static struct ares_addrinfo *make_result(const DnsAnswer &a) {
    struct ares_addrinfo *r = new ares_addrinfo();
    memset(r, 0, sizeof(*r));
    struct ares_addrinfo_node **tail = &r->nodes;
    for (auto &ip : a.ips) {
        Addr ad = Addr::parse_ip(ip, 0);
        if (!ad.family) continue;
        auto *n = new ares_addrinfo_node();
        memset(n, 0, sizeof(*n));
        n->ai_family = ad.family;
        n->ai_socktype = SOCK_STREAM;
        if (ad.family == AF_INET) {
            auto *sa = new sockaddr_in();
            memset(sa, 0, sizeof(*sa));
            sa->sin_family = AF_INET;
            memcpy(&sa->sin_addr, ad.ip, 4);
            n->ai_addr = (struct sockaddr *)sa;
            n->ai_addrlen = sizeof(*sa);
        } else {
            auto *sa = new sockaddr_in6();
            memset(sa, 0, sizeof(*sa));
            sa->sin6_family = AF_INET6;
            memcpy(&sa->sin6_addr, ad.ip, 16);
            n->ai_addr = (struct sockaddr *)sa;
            n->ai_addrlen = sizeof(*sa);
        }
        *tail = n;
        tail = &n->ai_next;
    }
    return r;
}

static void finish(StubChannel *c, int status, struct ares_addrinfo *res) {
    if (!c->pending) return;
    c->pending = false;
    if (c->sfd) c->sfd->mask = 0;
    if (c->fd >= 0) { k::close(c->fd); c->fd = -1; }
    c->cb(c->arg, status, c->timeouts, res);
}

extern "C" {

int ares_library_init(int) { return ARES_SUCCESS; }
void ares_library_cleanup(void) {}

int ares_init_options(ares_channel *out, struct ares_options *o, int mask) {
    StubChannel *c = new StubChannel();
    if (o && (mask & ARES_OPT_TIMEOUTMS)) c->timeout_ms = o->timeout;
    if (o && (mask & ARES_OPT_TRIES)) c->tries = o->tries;
    *out = (ares_channel)c;
    return ARES_SUCCESS;
}

void ares_getaddrinfo(ares_channel ch, const char *name, const char *, const struct ares_addrinfo_hints *, ares_addrinfo_callback cb, void *arg) {
    StubChannel *c = (StubChannel *)ch;
    c->name = name;
    c->cb = cb;
    c->arg = arg;
    c->pending = true;
    c->started = G->now;
    c->try_no = 0;
    c->next_timeout = G->now + (Time)c->timeout_ms * MS;
    auto it = DNS->find(name);
    if (it != DNS->end()) c->ans = it->second;
    else { c->ans = DnsAnswer(); c->ans.mode = 1; }
    G->count("probe.dns_query");
    // the resolver's datagram socket
    c->sfd = std::make_shared<StubFd>();
    c->fd = K->install(c->sfd);
    if (c->ans.mode != 2) {
        std::weak_ptr<bool> alive = c->alive;
        G->after(c->ans.after, [c, alive] {
            auto a = alive.lock();
            if (!a || !c->pending) return;
            c->answered = true;
            c->sfd->mask = POLLIN;
            G->kmut++;
        });
    } else G->count("fault.dns_silence");
}

int ares_getsock(ares_channel ch, ares_socket_t *socks, int n) {
    StubChannel *c = (StubChannel *)ch;
    if (!c->pending || c->fd < 0 || n < 1) return 0;
    socks[0] = c->fd;
    return 1;  // readable bit for socket 0
}

struct timeval *ares_timeout(ares_channel ch, struct timeval *maxtv, struct timeval *tv) {
    StubChannel *c = (StubChannel *)ch;
    if (!c->pending) return maxtv;
    Time left = c->next_timeout - G->now;
    if (left < 0) left = 0;
    tv->tv_sec = left / SEC;
    tv->tv_usec = (left % SEC) / US;
    if (maxtv && (maxtv->tv_sec < tv->tv_sec || (maxtv->tv_sec == tv->tv_sec && maxtv->tv_usec < tv->tv_usec))) return maxtv;
    return tv;
}

static void process_timeouts(StubChannel *c) {
    if (!c->pending) return;
    if (G->now >= c->next_timeout) {
        c->timeouts++;
        c->try_no++;
        G->count("probe.dns_retry");
        if (c->try_no >= c->tries) { finish(c, ARES_ETIMEOUT, nullptr); return; }
        c->next_timeout = G->now + (Time)c->timeout_ms * MS;
    }
}

void ares_process_fd(ares_channel ch, ares_socket_t rfd, ares_socket_t) {
    StubChannel *c = (StubChannel *)ch;
    if (!c->pending) return;
    if (rfd == c->fd && c->answered) {
        if (c->ans.mode == 1 || c->ans.ips.empty()) finish(c, ARES_ENOTFOUND, nullptr);
        else finish(c, ARES_SUCCESS, make_result(c->ans));
        return;
    }
    process_timeouts(c);
}

void ares_process(ares_channel ch, fd_set *, fd_set *) { process_timeouts((StubChannel *)ch); }

void ares_destroy(ares_channel ch) {
    StubChannel *c = (StubChannel *)ch;
    if (!c) return;
    if (c->pending) finish(c, ARES_EDESTRUCTION, nullptr);
    if (c->fd >= 0) k::close(c->fd);
    delete c;
}

void ares_freeaddrinfo(struct ares_addrinfo *r) {
    if (!r) return;
    struct ares_addrinfo_node *n = r->nodes;
    while (n) {
        auto *nx = n->ai_next;
        if (n->ai_family == AF_INET) delete (sockaddr_in *)n->ai_addr; else delete (sockaddr_in6 *)n->ai_addr;
        delete n;
        n = nx;
    }
    delete r;
}

const char *ares_strerror(int code) {
    switch (code) {
    case ARES_SUCCESS: return "success";
    case ARES_ENOTFOUND: return "domain name not found";
    case ARES_ETIMEOUT: return "timeout";
    case ARES_EDESTRUCTION: return "channel destroyed";
    default: return "resolver error";
    }
}

}  // extern "C"
