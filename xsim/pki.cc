#include "pki.h"
#include "kernel.h"
#include <openssl/bio.h>
#include <openssl/ec.h>
#include <openssl/pem.h>
#include <openssl/rand.h>
#include <openssl/x509v3.h>
#include <time.h>

namespace xs {

// ---- deterministic RAND
static Rng g_rand(12345);
static int dr_seed(const void *, int) { return 1; }
static int dr_bytes(unsigned char *buf, int n) {
    for (int i = 0; i < n; i += 8) {
        uint64_t v = g_rand.next();
        memcpy(buf + i, &v, std::min(8, n - i));
    }
    return 1;
}
static void dr_cleanup() {}
static int dr_add(const void *, int, double) { return 1; }
static int dr_status() { return 1; }
static RAND_METHOD det_method = {dr_seed, dr_bytes, dr_cleanup, dr_add, dr_bytes, dr_status};

void det_rand_install() { RAND_set_rand_method(&det_method); }
void det_rand_seed(uint64_t seed) { g_rand = Rng(seed ^ 0xabcdef1234567ULL); }

static const int64_t EPOCH0_S = 1790000000LL;
int64_t sim_epoch_seconds() { return EPOCH0_S; }

Cert::~Cert() {
    if (x) X509_free(x);
    if (key) EVP_PKEY_free(key);
}

static void add_ext(X509 *cert, X509 *issuer, int nid, const char *value) {
    X509V3_CTX ctx;
    X509V3_set_ctx_nodb(&ctx);
    X509V3_set_ctx(&ctx, issuer, cert, nullptr, nullptr, 0);
    X509_EXTENSION *ex = X509V3_EXT_conf_nid(nullptr, &ctx, nid, value);
    if (ex) { X509_add_ext(cert, ex, -1); X509_EXTENSION_free(ex); }
}

static std::string bio_str(BIO *b) {
    char *p = nullptr;
    long n = BIO_get_mem_data(b, &p);
    return std::string(p, (size_t)n);
}

std::unique_ptr<Cert> make_cert(const CertSpec &spec, const Cert *issuer) {
    auto c = std::make_unique<Cert>();
    c->spec = spec;
    c->issuer = issuer;
    c->key = EVP_EC_gen("P-256");
    X509 *x = X509_new();
    c->x = x;
    X509_set_version(x, 2);
    ASN1_INTEGER_set(X509_get_serialNumber(x), spec.serial);
    ASN1_TIME_set(X509_getm_notBefore(x), (time_t)(EPOCH0_S + spec.not_before));
    ASN1_TIME_set(X509_getm_notAfter(x), (time_t)(EPOCH0_S + spec.not_after));
    X509_set_pubkey(x, c->key);
    X509_NAME *name = X509_get_subject_name(x);
    X509_NAME_add_entry_by_txt(name, "O", MBSTRING_ASC, (const unsigned char *)"xsim", -1, -1, 0);
    if (!spec.cn.empty()) X509_NAME_add_entry_by_txt(name, "CN", MBSTRING_ASC, (const unsigned char *)spec.cn.c_str(), -1, -1, 0);
    X509_set_issuer_name(x, issuer ? X509_get_subject_name(issuer->x) : name);
    X509 *iss = issuer ? issuer->x : x;
    add_ext(x, iss, NID_basic_constraints, spec.is_ca ? "critical,CA:TRUE" : "CA:FALSE");
    if (spec.is_ca) add_ext(x, iss, NID_key_usage, "critical,keyCertSign,cRLSign");
    if (spec.ski) add_ext(x, iss, NID_subject_key_identifier, "hash");
    if (issuer && issuer->spec.ski) add_ext(x, iss, NID_authority_key_identifier, "keyid:always");
    std::string san;
    for (auto &d : spec.san_dns) san += (san.empty() ? "" : ",") + std::string("DNS:") + d;
    for (auto &d : spec.san_email) san += (san.empty() ? "" : ",") + std::string("email:") + d;
    if (!san.empty() || !spec.san_dir.empty()) {
        if (spec.san_dir.empty()) add_ext(x, iss, NID_subject_alt_name, san.c_str());
        else {
            // directory names need a GENERAL_NAMES built by hand
            GENERAL_NAMES *gens = sk_GENERAL_NAME_new_null();
            auto add_ia5 = [&](int type, const std::string &v) {
                GENERAL_NAME *g = GENERAL_NAME_new();
                ASN1_IA5STRING *s = ASN1_IA5STRING_new();
                ASN1_STRING_set(s, v.data(), (int)v.size());
                GENERAL_NAME_set0_value(g, type, s);
                sk_GENERAL_NAME_push(gens, g);
            };
            for (auto &d : spec.san_dns) add_ia5(GEN_DNS, d);
            for (auto &d : spec.san_email) add_ia5(GEN_EMAIL, d);
            for (auto &d : spec.san_dir) {
                GENERAL_NAME *g = GENERAL_NAME_new();
                X509_NAME *dn = X509_NAME_new();
                X509_NAME_add_entry_by_txt(dn, "CN", MBSTRING_ASC, (const unsigned char *)d.c_str(), -1, -1, 0);
                GENERAL_NAME_set0_value(g, GEN_DIRNAME, dn);
                sk_GENERAL_NAME_push(gens, g);
            }
            X509_add1_ext_i2d(x, NID_subject_alt_name, gens, 0, X509V3_ADD_DEFAULT);
            sk_GENERAL_NAME_pop_free(gens, GENERAL_NAME_free);
        }
    }
    static const char *ekus[] = {nullptr, "clientAuth", "serverAuth", "clientAuth,serverAuth", "codeSigning"};
    if (spec.eku > 0 && spec.eku <= 4) add_ext(x, iss, NID_ext_key_usage, ekus[spec.eku]);
    X509_sign(x, issuer ? issuer->key : c->key, EVP_sha256());
    BIO *b = BIO_new(BIO_s_mem());
    PEM_write_bio_X509(b, x);
    c->cert_pem = bio_str(b);
    BIO_free(b);
    b = BIO_new(BIO_s_mem());
    PEM_write_bio_PrivateKey(b, c->key, nullptr, nullptr, 0, nullptr, nullptr);
    c->key_pem = bio_str(b);
    BIO_free(b);
    if (spec.ski) {
        const ASN1_OCTET_STRING *ski = X509_get0_subject_key_id(x);
        if (ski) c->ski_hex = hexdump(ASN1_STRING_get0_data(ski), (size_t)ASN1_STRING_length(ski), 64);
    }
    return c;
}

std::string make_crl(const Cert &issuer, const std::vector<long> &revoked, int64_t this_update, int64_t next_update) {
    X509_CRL *crl = X509_CRL_new();
    X509_CRL_set_version(crl, 1);
    X509_CRL_set_issuer_name(crl, X509_get_subject_name(issuer.x));
    ASN1_TIME *t = ASN1_TIME_new();
    ASN1_TIME_set(t, (time_t)(EPOCH0_S + this_update));
    X509_CRL_set1_lastUpdate(crl, t);
    ASN1_TIME_set(t, (time_t)(EPOCH0_S + next_update));
    X509_CRL_set1_nextUpdate(crl, t);
    for (long s : revoked) {
        X509_REVOKED *r = X509_REVOKED_new();
        ASN1_INTEGER *si = ASN1_INTEGER_new();
        ASN1_INTEGER_set(si, s);
        X509_REVOKED_set_serialNumber(r, si);
        ASN1_TIME_set(t, (time_t)(EPOCH0_S + this_update));
        X509_REVOKED_set_revocationDate(r, t);
        X509_CRL_add0_revoked(crl, r);
        ASN1_INTEGER_free(si);
    }
    ASN1_TIME_free(t);
    X509_CRL_sort(crl);
    X509_CRL_sign(crl, issuer.key, EVP_sha256());
    BIO *b = BIO_new(BIO_s_mem());
    PEM_write_bio_X509_CRL(b, crl);
    std::string s = bio_str(b);
    BIO_free(b);
    X509_CRL_free(crl);
    return s;
}

const BasicPki &basic_pki() {
    static BasicPki *p = nullptr;
    if (!p) {
        det_rand_seed(777);
        p = new BasicPki();
        CertSpec r; r.cn = "root"; r.is_ca = true; r.serial = 1;
        p->root = make_cert(r, nullptr);
        CertSpec a; a.cn = "leaf-a"; a.serial = 2; a.san_dns = {"a.example", "alt-a.example", "a-with-a-rather-long-name-for-a-subject-alternative-name.sub.domain.example"}; a.san_email = {"a@example.com"}; a.san_dir = {"dir-a"};
        p->leaf_a = make_cert(a, p->root.get());
        CertSpec b; b.cn = "leaf-b"; b.serial = 3; b.san_dns = {"b.example"}; b.san_email = {"b@example.com", "ops@b.example"}; b.san_dir = {"dir-b", "second-dir-b"};
        p->leaf_b = make_cert(b, p->root.get());
        CertSpec o; o.cn = "other-root"; o.is_ca = true; o.serial = 1;
        p->other_root = make_cert(o, nullptr);
        CertSpec ol; ol.cn = "other-leaf"; ol.serial = 2;
        p->other_leaf = make_cert(ol, p->other_root.get());
    }
    return *p;
}

}  // namespace xs

// libcrypto's certificate validity checks read time(): give them the simulated wall clock.
extern "C" time_t time(time_t *out) {
    time_t t;
    if (xs::G) t = (time_t)(xs::sim_epoch_seconds() + (xs::G->now + xs::G->wall_offset) / xs::SEC);
    else t = (time_t)xs::sim_epoch_seconds();
    if (out) *out = t;
    return t;
}
