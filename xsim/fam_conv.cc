// Family "conv": 1..3 client connections to one server, each running a generated *conversation*
// (a global order of messages / byte runs in both directions, projected on the two endpoints).
// Projection of one global order makes every run deadlock-free at application level in blocking
// and non-blocking mode alike, so that any task still parked at global quiescence is a lost
// wake-up (C04) and every accepted message must have been delivered (C01/C02).
// Serves C01 C02 C04 C05 C16 C17 (and carries probes for C10).
#include "run.h"
#include <cerrno>
#include <csetjmp>

namespace xs {

enum { T_ACCEPTOR = 0, T_CLIENT0 = 1, T_SCONN0 = 101 };

static const char *MSG_TPS[] = {"ux", "uxf", "tcp", "tls", "utls", "utls_tls"};
static const char *STR_TPS[] = {"btcp", "btls"};

static bool tls_bearing(const std::string &tp) { return tp == "tls" || tp == "utls_tls" || tp == "btls" || tp == "utls"; }

static size_t pick_len(Rng &r, size_t cap_total) {
    static const size_t special[] = {1, 2, 3, 4, 5, 8, 255, 256, 1000, 4092, 4096, 65534, 65535};
    size_t l;
    int k = (int)r.below(10);
    if (k < 4) l = special[r.below(13)];
    else if (k < 8) l = 1 + r.below(2000);
    else l = 1 + r.below(65535);
    if (l > cap_total) l = 1 + r.below(cap_total);
    return l;
}

struct GenP {
    const char *family = "conv";
    uint64_t salt = 0xC0;
    double p_faults = 0.7;
    int max_conn = 3;
    int max_events = 12;
    bool small = false;      // short messages only (fault-enumeration families keep the wire short)
    bool noise = true;
    double p_stream = 0.3;
    bool badsends = false;   // C03: sends of size 0 / max+1 / 1 MiB as generated inputs
};

static size_t pick_len_small(Rng &r) {
    static const size_t l[] = {1, 1, 2, 3, 4, 5, 17, 60, 300, 1500};
    return l[r.below(10)];
}

static void gen_with(uint64_t seed, const std::string &prop, Plan &plan, const GenP &gp) {
    Rng r(mix64(seed, gp.salt));
    plan.family = gp.family;
    plan.prop = prop;
    plan.seed = seed;
    bool faults = r.chance(gp.p_faults);
    gen_common_knobs(r, plan, faults);
    bool stream = prop == "C02" ? true : prop == "C01" ? false : r.chance(gp.p_stream);
    std::string tp = stream ? STR_TPS[r.below(2)] : MSG_TPS[r.below(6)];
    plan.sp["tp"] = tp;
    plan.p["stream"] = stream;
    auto &p = plan.p;
    // Linux never gives a TCP socket less than ~4.5 KiB of send and ~2.2 KiB of receive buffer. Plain
    // tcp/btcp tolerate smaller (useful to force partial writes), but TLS can deadlock legitimately when
    // a post-handshake record (session ticket) does not fit while both ends write: stay in the envelope.
    if (tls_bearing(tp) && p["tcp_buf"] < 4096) p["tcp_buf"] = 4096 << r.below(5);
    int nconn = (gp.max_conn <= 1 || r.chance(0.7)) ? 1 : (int)r.range(2, gp.max_conn);
    int gid = 0;
    p["nconn"] = nconn;
    p["srv_nb"] = r.chance(0.7);
    p["ctl"] = r.chance(0.25);
    p["counters"] = (prop == "C17") ? 1 : r.chance(0.15);
    p["retry_policy"] = (int64_t)r.below(3);   // byte-stream retry after EAGAIN: 0 same bytes, 1 fresh bytes, 2 fresh+longer
    // traffic volume bounded by the smallest buffer so that a run stays within its step budget
    size_t vol = p["tcp_buf"] < 16 ? 600 : p["tcp_buf"] < 512 ? 6000 : p["tcp_buf"] <= 16384 ? 60000 : 400000;
    // many tiny segments per write (policies 2 and 4) under TLS records: every record costs tens of deliveries
    if (tls_bearing(tp) && (p["seg_policy"] == 2 || p["seg_policy"] == 4)) vol = std::min<size_t>(vol, p["tcp_buf"] <= 16384 ? 20000 : 100000);
    if (tp == "ux" || tp == "uxf" || tp == "utls") vol = 400000;
    for (int c = 0; c < nconn; c++) {
        p[strf("c%d_nb", c)] = r.chance(0.7);
        p[strf("s%d_nb", c)] = r.chance(0.7);
        p[strf("c%d_spec", c)] = r.chance(0.5);
        p[strf("s%d_spec", c)] = r.chance(0.5);
        // application styles the contract allows: relying on the awaited condition being sticky
        // (xcm_await only when it changes) and driving establishment with xcm_finish alone
        p[strf("c%d_sticky", c)] = r.chance(0.3);
        p[strf("s%d_sticky", c)] = r.chance(0.3);
        p[strf("c%d_ff", c)] = r.chance(0.3);
        bool both_nb = p[strf("c%d_nb", c)] && p[strf("s%d_nb", c)];
        bool had_duplex = false;
        int ct = T_CLIENT0 + c, st = T_SCONN0 + c;
        plan.ops.push_back(Op{ct, "connect", {}, "", {}, -1});
        int nev = (int)r.range(1, gp.max_events);
        size_t left = vol / (size_t)nconn;
        int idx[2] = {0, 0};
        int dir = (int)r.below(2);
        for (int e = 0; e < nev && left > 0; e++) {
            if (both_nb && gp.noise && r.chance(0.22)) {
                // full-duplex burst: both ends send several messages (or a byte run) while receiving the
                // other's - the awaited condition is SENDABLE|RECEIVABLE and back-pressure can build both ways
                int grp = ++gid;
                had_duplex = true;
                if (stream) {
                    int64_t la = (int64_t)std::min<size_t>(pick_len(r, left) * 3, left); left -= (size_t)la;
                    int64_t lb = left ? (int64_t)std::min<size_t>(pick_len(r, left) * 3, left) : 0; left -= (size_t)lb;
                    int64_t chunk = 1 + (int64_t)r.below(70000), cap = 1 + (int64_t)r.below(65536);
                    plan.ops.push_back(Op{ct, "sduplex", {la, lb, chunk, cap}, "", {}, grp});
                    plan.ops.push_back(Op{st, "sduplex", {lb, la, chunk, cap}, "", {}, grp});
                } else {
                    Op a{ct, "duplex", {0, c, idx[0], 0}, "", {}, grp}, b{st, "duplex", {1, c, idx[1], 0}, "", {}, grp};
                    int ka = (int)r.range(1, 4), kb = (int)r.range(1, 4);
                    for (int i = 0; i < ka && left > 0; i++) { size_t l = pick_len(r, left); left -= l; a.n.push_back((int64_t)l); idx[0]++; }
                    for (int i = 0; i < kb && left > 0; i++) { size_t l = pick_len(r, left); left -= l; b.n.push_back((int64_t)l); idx[1]++; }
                    a.n[3] = (int64_t)b.n.size() - 4;
                    b.n[3] = (int64_t)a.n.size() - 4;
                    plan.ops.push_back(a);
                    plan.ops.push_back(b);
                }
                continue;
            }
            if (r.chance(0.45)) dir = !dir;
            size_t len = gp.small ? std::min(pick_len_small(r), left) : pick_len(r, left);
            left -= len;
            int snd = dir == 0 ? ct : st, rcv = dir == 0 ? st : ct;
            if (stream) {
                int64_t chunk = r.chance(0.3) ? (int64_t)len : (int64_t)(1 + r.below(std::min<size_t>(len, 70000)));
                // under TLS every xcm_send is a record of its own; cut into 1-3 byte segments each record costs tens of deliveries
                // (and a receiver spinning on the partial record in between): bounded number of records per run
                if (tls_bearing(tp) && (p["seg_policy"] == 2 || p["seg_policy"] == 4) && (int64_t)len / chunk > 60) chunk = (int64_t)len / 60 + 1;
                int grp = ++gid;
                plan.ops.push_back(Op{snd, "ssend", {(int64_t)len, chunk}, "", {}, grp});
                static const int64_t caps[] = {1, 2, 7, 100, 4096, 65536};
                int64_t cap = caps[r.below(6)];
                if (cap < 100 && len > 3000) cap = 4096;   // keep the number of receive calls per run bounded
                plan.ops.push_back(Op{rcv, "srecv", {(int64_t)len, cap}, "", {}, grp});
            } else {
                int grp = ++gid;
                plan.ops.push_back(Op{snd, "send", {(int64_t)len, idx[dir]++, dir, c}, "", {}, grp});
                int64_t cap = r.chance(0.15) ? (int64_t)(len > 1 ? 1 + r.below(len - 1) : 1) : (r.chance(0.5) ? (int64_t)len : 65535);
                if (r.chance(0.05)) cap = (int64_t)len + 1;
                plan.ops.push_back(Op{rcv, "recv", {cap}, "", {}, grp});
            }
            if (gp.badsends && !stream && r.chance(0.35)) {
                // incl. lengths whose low 32 (or 16) bits look like a legal size: the check must be made on the whole size_t
                static const int64_t bad[] = {0, 65536, 65537, 1 << 20, 100000, (1LL << 32) + 5, (1LL << 32) + 65535, 3 * (1LL << 40) + 1000, (1LL << 32), (1LL << 16) * 3 + 7, INT64_MAX, -1};
                plan.ops.push_back(Op{r.chance(0.5) ? ct : st, "badsend", {bad[r.below(12)]}, "", {}});
            }
            if (!gp.noise) continue;
            // noise: calls that the contract allows at any time
            if (r.chance(0.25)) plan.ops.push_back(Op{r.chance(0.5) ? ct : st, "finish", {0}, "", {}});
            if (r.chance(0.15)) plan.ops.push_back(Op{r.chance(0.5) ? ct : st, "tryrecv", {65535}, "", {}});
            if (r.chance(0.10)) plan.ops.push_back(Op{r.chance(0.5) ? ct : st, "await", {(int64_t)r.below(4)}, "", {}});
            if (r.chance(0.05)) plan.ops.push_back(Op{r.chance(0.5) ? ct : st, "sleep", {(int64_t)r.below(3000)}, "", {}});
            if (!had_duplex && !both_nb && r.chance(0.04)) plan.ops.push_back(Op{r.chance(0.5) ? ct : st, "setblk", {(int64_t)r.below(2)}, "", {}});
        }
        int closer = r.chance(0.5) ? ct : st, other = closer == ct ? st : ct;
        if (gp.noise) {
            // C16: a settle point - everything delivered, both ends finished - where readiness is read from the kernel
            plan.ops.push_back(Op{ct, "settle", {(int64_t)r.below(4)}, "", {}});
            plan.ops.push_back(Op{st, "settle", {(int64_t)r.below(4)}, "", {}});
        }
        plan.ops.push_back(Op{closer, "finish", {1}, "", {}, -1});
        plan.ops.push_back(Op{closer, "close", {}, "", {}, -1});
        plan.ops.push_back(Op{other, "finish", {1}, "", {}, -1});
        plan.ops.push_back(Op{other, "recv_eof", {}, "", {}, -1});
        plan.ops.push_back(Op{other, "close", {}, "", {}, -1});
    }
    p["step_budget"] = 1500000;
}

static void gen(uint64_t seed, const std::string &prop, Plan &plan) { gen_with(seed, prop, plan, GenP()); }

// Family "term" (C06, C03): one short conversation; the worker first executes it fault-free while
// recording every fallible lower call, then executes one variant per failure point (fault enumeration).
static void gen_term(uint64_t seed, const std::string &prop, Plan &plan) {
    GenP gp;
    gp.family = "term";
    gp.salt = 0x7E;
    gp.p_faults = 0.25;
    gp.max_conn = 1;
    gp.max_events = prop == "C03" ? 5 : 6;
    gp.small = true;
    gp.noise = false;
    gp.p_stream = prop == "C03" ? 0.15 : 0.3;
    gp.badsends = prop == "C03";
    gen_with(seed, prop, plan, gp);
    plan.p["counters"] = prop == "C03" ? 1 : plan.p["counters"];
    plan.p["ctl"] = 0;
    plan.p["variant_cap"] = 200;
}

// ------------------------------------------------------------------ execution
struct ConvCtx {
    std::string tp, addr;
    bool stream = false;
    bool server_ready = false, server_failed = false;
    int nconn = 0;
    uint64_t fresh_counter = 0;
    bool client_gone = false;    // variant runs: the (only) client's connection attempt failed
    bool relay = false;          // family "relay": clients connect to xcmrelay (front), which connects to the server (back)
    std::string front_addr, tp2;
    int relay_exit_code = -1000; // exit code of the relay's main, once it has exited
    int scripts_done = 0;
    int clients_done = 0, stasks_spawned = 0, stasks_done = 0;
    bool relay_live_violation = false;
};
static ConvCtx *CX = nullptr;

static std::string addr_for(const std::string &tp, uint64_t seed) {
    if (tp == "ux") return strf("ux:xsim-%llx", (unsigned long long)(seed & 0xffff));
    if (tp == "uxf") return "uxf:/tmp/xsim.sock";
    if (tp == "tcp") return "tcp:127.0.0.1:4711";
    if (tp == "tls") return "tls:127.0.0.1:4712";
    if (tp == "utls" || tp == "utls_tls") return "utls:127.0.0.1:4713";
    if (tp == "btcp") return "btcp:127.0.0.1:4714";
    if (tp == "btls") return "btls:127.0.0.1:4715";
    return tp + ":127.0.0.1:4700";
}

struct Script {
    XSock *x = nullptr;
    std::vector<std::pair<int, const Op *>> ops;   // (index in plan, op)
    bool spec = true;
    bool sticky = false;         // rely on the awaited condition staying in effect (xcm_await only when it changes)
    int last_cond = -1;
    std::deque<int> stash;       // messages already obtained by a speculative receive (their lengths)
    bool settled = false;        // reached its settle point (all data operations done, xcm_finish == 0)
    bool settle_done = false;    // finished inspecting at the settle point (nobody closes before both have)
    bool failed = false;         // a terminal condition ended the script early
    int eof_errno = 0;           // recv_eof: the close was reported as this errno instead of 0
    bool done = false;
    std::string who;
};

enum WaitRc { W_OK, W_STOP };

static WaitRc wait_for(Script &sc, int cond) {
    if (!sc.x->nonblocking) return W_OK;
    if (!sc.sticky || sc.last_cond != cond) x_await(sc.x, cond);
    sc.last_cond = cond;
    if (!x_wait(sc.x)) return W_STOP;
    return W_OK;
}

static bool terminal_errno(int e) { return !(e == EAGAIN || e == EINTR); }

// returns false when the script must end (terminal condition or run stopping)
static bool do_send_msg(Script &sc, const Op &op) {
    std::string m = make_payload(G->plan.seed, (int)op.arg(3), (int)op.arg(2), (int)op.arg(1), (size_t)op.arg(0));
    bool first = true;
    for (;;) {
        if (G->stopping) return false;
        if (sc.x->nonblocking && !sc.spec && first) { if (wait_for(sc, XCM_SO_SENDABLE) == W_STOP) return false; }
        first = false;
        int rc = x_send(sc.x, m.data(), m.size());
        if (rc >= 0) return true;
        if (errno == EAGAIN && sc.x->nonblocking) { G->count("probe.send_eagain"); if (wait_for(sc, XCM_SO_SENDABLE) == W_STOP) return false; continue; }
        if (errno == EINTR) continue;
        sc.failed = true;
        return false;
    }
}

static bool do_recv_msg(Script &sc, const Op &op) {
    if (!sc.stash.empty()) { sc.stash.pop_front(); return true; }
    size_t cap = (size_t)op.arg(0);
    std::unique_ptr<uint8_t[]> buf(new uint8_t[cap ? cap : 1]);
    bool first = true;
    for (;;) {
        if (G->stopping) return false;
        if (sc.x->nonblocking && !sc.spec && first) { if (wait_for(sc, XCM_SO_RECEIVABLE) == W_STOP) return false; }
        first = false;
        int rc = x_receive(sc.x, buf.get(), cap);
        if (rc > 0) return true;
        if (rc == 0) { sc.failed = true; return false; }
        if (errno == EAGAIN && sc.x->nonblocking) { if (wait_for(sc, XCM_SO_RECEIVABLE) == W_STOP) return false; continue; }
        if (errno == EINTR) continue;
        sc.failed = true;
        return false;
    }
}

static bool do_stream_send(Script &sc, const Op &op) {
    size_t total = (size_t)op.arg(0), chunk = (size_t)std::max<int64_t>(1, op.arg(1)), done = 0;
    int policy = (int)G->plan.P("retry_policy");
    std::string offer;
    bool refused = false;
    bool first = true;
    while (done < total) {
        if (G->stopping) return false;
        size_t want = std::min(chunk, total - done);
        if (!refused || policy != 0 || offer.size() != want) {
            // fresh, self-identifying bytes for every offer (so that bytes of a refused call are recognisable)
            size_t n = want;
            if (refused && policy == 2) n = std::min(total - done, want + 1 + (size_t)G->r_app.below(64));
            offer = make_payload(G->plan.seed ^ 0x5757, sc.x->idx, 7, (int)CX->fresh_counter++, n);
        }
        if (sc.x->nonblocking && !sc.spec && first) { if (wait_for(sc, XCM_SO_SENDABLE) == W_STOP) return false; }
        first = false;
        int rc = x_send(sc.x, offer.data(), offer.size());
        if (rc > 0) { done += (size_t)rc; refused = false; if ((size_t)rc < offer.size()) G->count("probe.stream_partial_accept"); continue; }
        if (rc == 0) { sc.failed = true; return false; }
        if (errno == EAGAIN && sc.x->nonblocking) { refused = true; G->count("probe.send_eagain"); if (wait_for(sc, XCM_SO_SENDABLE) == W_STOP) return false; continue; }
        if (errno == EINTR) continue;
        sc.failed = true;
        return false;
    }
    return true;
}

static bool do_stream_recv(Script &sc, const Op &op) {
    size_t total = (size_t)op.arg(0), cap = (size_t)std::max<int64_t>(1, op.arg(1)), got = 0;
    std::unique_ptr<uint8_t[]> buf(new uint8_t[cap]);
    bool first = true;
    while (got < total) {
        if (G->stopping) return false;
        if (sc.x->nonblocking && !sc.spec && first) { if (wait_for(sc, XCM_SO_RECEIVABLE) == W_STOP) return false; }
        first = false;
        size_t c = std::min(cap, total - got);   // never read into the next run (keeps the projection exact)
        std::unique_ptr<uint8_t[]> b2;
        uint8_t *dst = buf.get();
        if (c != cap) { b2.reset(new uint8_t[c]); dst = b2.get(); }
        int rc = x_receive(sc.x, dst, c);
        if (rc > 0) { got += (size_t)rc; continue; }
        if (rc == 0) { sc.failed = true; return false; }
        if (errno == EAGAIN && sc.x->nonblocking) { if (wait_for(sc, XCM_SO_RECEIVABLE) == W_STOP) return false; continue; }
        if (errno == EINTR) continue;
        sc.failed = true;
        return false;
    }
    return true;
}

// Full-duplex burst on a non-blocking socket: send k messages while receiving n, awaiting both conditions.
static bool do_duplex(Script &sc, const Op &op) {
    int dir = (int)op.arg(0), conn = (int)op.arg(1), first = (int)op.arg(2);
    size_t nrecv = (size_t)op.arg(3), nsend = op.n.size() > 4 ? op.n.size() - 4 : 0, si = 0, ri = 0;
    std::unique_ptr<uint8_t[]> buf(new uint8_t[65535]);
    bool first_round = true;
    while (!sc.stash.empty() && ri < nrecv) { sc.stash.pop_front(); ri++; }
    if (!sc.x->nonblocking) {
        // (only reachable if the mode was switched by hand) sequential fallback: connector sends first
        G->count("probe.duplex_blocking_fallback");
    }
    while (si < nsend || ri < nrecv) {
        if (G->stopping) return false;
        int cond = (si < nsend ? XCM_SO_SENDABLE : 0) | (ri < nrecv ? XCM_SO_RECEIVABLE : 0);
        if (!(sc.spec && first_round)) { if (wait_for(sc, cond) == W_STOP) return false; }
        first_round = false;
        // which of the two operations comes first after a wake-up is the application's business: seeded
        bool send_first = G->r_app.chance(0.5);
        for (int k = 0; k < 2; k++) {
            bool do_send = (k == 0) == send_first;
            if (do_send && si < nsend) {
                std::string m = make_payload(G->plan.seed, conn, dir, first + (int)si, (size_t)op.n[4 + si]);
                int rc = x_send(sc.x, m.data(), m.size());
                if (rc >= 0) si++;
                else if (errno != EAGAIN && errno != EINTR) { sc.failed = true; return false; }
                else G->count("probe.send_eagain");
            }
            if (!do_send && ri < nrecv) {
                int rc = x_receive(sc.x, buf.get(), 65535);
                if (rc > 0) ri++;
                else if (rc == 0) { sc.failed = true; return false; }
                else if (errno != EAGAIN && errno != EINTR) { sc.failed = true; return false; }
            }
        }
        G->count("probe.duplex_round");
    }
    return true;
}

static bool do_stream_duplex(Script &sc, const Op &op) {
    size_t tsend = (size_t)op.arg(0), trecv = (size_t)op.arg(1), chunk = (size_t)std::max<int64_t>(1, op.arg(2)), cap = (size_t)std::max<int64_t>(1, op.arg(3));
    size_t sent = 0, got = 0;
    std::string offer;
    bool first_round = true;
    while (sent < tsend || got < trecv) {
        if (G->stopping) return false;
        int cond = (sent < tsend ? XCM_SO_SENDABLE : 0) | (got < trecv ? XCM_SO_RECEIVABLE : 0);
        if (!(sc.spec && first_round)) { if (wait_for(sc, cond) == W_STOP) return false; }
        first_round = false;
        bool send_first = G->r_app.chance(0.5);
        for (int k = 0; k < 2; k++) {
            bool do_send = (k == 0) == send_first;
            if (do_send && sent < tsend) {
                size_t want = std::min(chunk, tsend - sent);
                // a refused offer is retried with the same bytes (the other retry policies are exercised by "ssend")
                if (offer.size() != want) offer = make_payload(G->plan.seed ^ 0x5757, sc.x->idx, 7, (int)CX->fresh_counter++, want);
                int rc = x_send(sc.x, offer.data(), offer.size());
                if (rc > 0) { sent += (size_t)rc; offer.clear(); }
                else if (rc == 0) { sc.failed = true; return false; }
                else if (errno != EAGAIN && errno != EINTR) { sc.failed = true; return false; }
                else G->count("probe.send_eagain");
            }
            if (!do_send && got < trecv) {
                size_t c = std::min(cap, trecv - got);
                std::unique_ptr<uint8_t[]> b(new uint8_t[c]);
                int rc = x_receive(sc.x, b.get(), c);
                if (rc > 0) got += (size_t)rc;
                else if (rc == 0) { sc.failed = true; return false; }
                else if (errno != EAGAIN && errno != EINTR) { sc.failed = true; return false; }
            }
        }
        G->count("probe.duplex_round");
    }
    return true;
}

static bool kernel_conn_idle(XSock *x) {
    auto f = x_kernel_conn(x);
    if (auto t = std::dynamic_pointer_cast<TcpSock>(f)) return K->conn_idle_tcp(t) && !t->dead && !(t->in && t->in->fin_delivered);
    if (auto u = std::dynamic_pointer_cast<UnixSock>(f)) { auto p = u->peer.lock(); return u->rq.empty() && p && !p->closed && p->rq.empty() && !u->peer_closed; }
    return false;
}
static bool do_finish(Script &sc, bool must);
static Script *peer_script(Script &sc);

// C16 settle point. Both ends have performed all their data operations; each finishes its outstanding
// work and waits (harness-level, not through XCM) for the other to have done the same. With nothing
// buffered or in flight in either direction the socket's epoll object - read straight from the
// simulated kernel - must be quiet for condition 0 and for RECEIVABLE after an EAGAIN, and ready at once
// for SENDABLE.
static void do_settle_inspect(Script &sc, const Op &op, Script *ps);
static void do_settle(Script &sc, const Op &op) {
    XSock *x = sc.x;
    Script *ps = peer_script(sc);
    if (x->nonblocking && !do_finish(sc, true)) { sc.settled = sc.settle_done = true; return; }
    sc.settled = true;
    if (ps) {
        block_until([ps] { return ps->settled || ps->failed || ps->done || ps->x->closed; }, -1, "settle barrier");
        if (x->nonblocking && !G->stopping && !ps->failed && !ps->x->closed && ps->settled) do_settle_inspect(sc, op, ps);
    }
    sc.settle_done = true;
    // nobody goes on to close while the other end is still looking
    if (ps) block_until([ps] { return ps->settle_done || ps->failed || ps->done || ps->x->closed; }, -1, "settle exit barrier");
}
static void do_settle_inspect(Script &sc, const Op &op, Script *ps) {
    XSock *x = sc.x;
    (void)ps;
    int variant = (int)op.arg(0);
    auto inspect = [&](const char *what, bool want_ready) {
        if (!kernel_conn_idle(x)) { G->count("probe.settle_not_idle"); return; }
        bool ready = K->epoll_ready(x_fd(x));
        G->count("probe.settle_inspected");
        if (ready != want_ready)
            G->violation(want_ready ? "C16.not_ready_when_met" : "C16.ready_when_idle", "%s: established connection, nothing buffered or in flight in either direction, %s: the socket's descriptor is %s; registrations: %s",
                         x->label.c_str(), what, ready ? "readable" : "not readable", K->epoll_dump(x->xfd).c_str());
    };
    // (a) straight after the xcm_finish that returned 0, without a new xcm_await: the awaited condition is still 0
    if (sc.last_cond == 0 && (variant & 1)) inspect("condition 0, right after xcm_finish returned 0", false);
    // (b) RECEIVABLE after a receive that reported EAGAIN (this also empties TLS read-ahead and post-handshake records)
    uint8_t b[64];
    x_await(x, XCM_SO_RECEIVABLE);
    sc.last_cond = XCM_SO_RECEIVABLE;
    int rc = x_receive(x, b, sizeof(b));
    if (rc >= 0 || errno != EAGAIN) { if (rc > 0) sc.stash.push_back(rc); return; }   // something did arrive (or the end): not an idle connection
    inspect("condition RECEIVABLE after xcm_receive reported EAGAIN", false);
    // (c) condition 0 set explicitly
    x_await(x, 0);
    sc.last_cond = 0;
    inspect("condition 0", false);
    // (d) a condition that is already met: an idle connection is SENDABLE
    if (variant & 2) {
        x_await(x, XCM_SO_SENDABLE);
        inspect("condition SENDABLE", true);
        x_await(x, 0);
    }
}

static bool do_finish(Script &sc, bool must) {
    if (!sc.x->nonblocking) return true;   // blocking sockets have finished by definition (xcm_finish gives EINVAL)
    for (;;) {
        if (G->stopping) return false;
        int rc = x_finish(sc.x);
        if (rc == 0) return true;
        if (errno == EAGAIN) { if (!must) return true; if (wait_for(sc, 0) == W_STOP) return false; continue; }
        sc.failed = true;
        return false;
    }
}

// C06: once a terminal condition has been reported the socket must stay in it. Three or more rounds of
// send / receive / finish in a seeded order; the automaton in xapi.cc judges every result.
static void probe_terminal(Script &sc) {
    XSock *x = sc.x;
    if (!x->terminal() && !x->saw_epipe) return;
    int rounds = 3 + (int)G->r_app.below(3);
    uint8_t buf[64];
    for (int i = 0; i < rounds && !G->stopping; i++) {
        int order = (int)G->r_app.below(6);
        static const int perm[6][3] = {{0, 1, 2}, {0, 2, 1}, {1, 0, 2}, {1, 2, 0}, {2, 0, 1}, {2, 1, 0}};
        for (int k = 0; k < 3; k++) {
            switch (perm[order][k]) {
            case 0: x_send(x, "p", 1); break;
            case 1: x_receive(x, buf, sizeof(buf)); break;
            case 2: if (x->nonblocking) x_finish(x); break;
            }
        }
        G->count("probe.terminal_probe_round");
    }
}

static void run_script(Script &sc) {
    XSock *x = sc.x;
    int data_left = 0;
    auto is_data = [](const std::string &k) { return k == "send" || k == "recv" || k == "ssend" || k == "srecv" || k == "duplex" || k == "sduplex"; };
    for (auto &io : sc.ops) if (is_data(io.second->kind)) data_left++;
    for (auto &io : sc.ops) {
        if (G->stopping) break;
        if (sc.failed) {
            // a terminal report after the last data operation is the conversation's normal end
            if (data_left == 0) sc.failed = false;
            break;
        }
        const Op &op = *io.second;
        if (is_data(op.kind)) data_left--;
        arm_faults(op.faults, io.first);
        bool ok = true;
        if (op.kind == "send") ok = do_send_msg(sc, op);
        else if (op.kind == "recv") ok = do_recv_msg(sc, op);
        else if (op.kind == "ssend") ok = do_stream_send(sc, op);
        else if (op.kind == "srecv") ok = do_stream_recv(sc, op);
        else if (op.kind == "duplex") ok = do_duplex(sc, op);
        else if (op.kind == "sduplex") ok = do_stream_duplex(sc, op);
        else if (op.kind == "settle") do_settle(sc, op);
        else if (op.kind == "finish") ok = do_finish(sc, op.arg(0) != 0);
        else if (op.kind == "tryrecv") {
            if (x->nonblocking && !CX->stream) {
                size_t cap = (size_t)op.arg(0);
                std::unique_ptr<uint8_t[]> buf(new uint8_t[cap]);
                int rc = x_receive(x, buf.get(), cap);
                if (rc > 0) sc.stash.push_back(rc);
                else if (rc < 0 && terminal_errno(errno)) sc.failed = true;
                // rc == 0: the peer has closed already; a later "recv" will fail if anything was still owed
            }
        } else if (op.kind == "await") {
            if (x->nonblocking) {
                x_await(x, (int)op.arg(0) & 3);
                sc.last_cond = (int)op.arg(0) & 3;
                struct pollfd p = {x_fd(x), POLLIN, 0};
                k::poll(&p, 1, 0);
            }
        } else if (op.kind == "sleep") task_sleep(op.arg(0) * US);
        else if (op.kind == "setblk") {
            bool want_blocking = op.arg(0) != 0;
            sc.last_cond = -1;
            if (x_set_blocking(x, want_blocking) < 0 && terminal_errno(errno)) sc.failed = true;
        } else if (op.kind == "recv_eof") {
            // the peer closes after its last send: we must see every message, then 0 (C06 orderly close)
            uint8_t b[16];
            for (;;) {
                if (G->stopping) break;
                int rc = x_receive(x, b, sizeof(b));
                if (rc == 0) break;
                if (rc > 0) continue;   // stray data would already have been flagged by the delivery oracle
                if (errno == EAGAIN && x->nonblocking) { if (wait_for(sc, XCM_SO_RECEIVABLE) == W_STOP) break; continue; }
                if (errno == EINTR) continue;
                sc.eof_errno = errno;
                break;
            }
        } else if (op.kind == "close") { x_close(x); }
        else if (op.kind == "abort") { x_close(x); break; }   // crash point: close at once, nothing finished
        else if (op.kind == "badsend") {
            // C03: sizes the transport must refuse without touching the connection (0: EINVAL, > max: EMSGSIZE)
            size_t len = (size_t)op.arg(0);   // (-1 is SIZE_MAX)
            std::string m(std::min<size_t>(len, 1u << 20), 'z');   // a size the library must refuse before it reads anything; 1 MiB of real buffer behind it
            int rc = x_send(x, m.data(), len);
            int e = errno;
            if (rc >= 0)
                G->violation("C03.bad_size_accepted", "%s: xcm_send with %zu bytes on a messaging socket returned %d", x->label.c_str(), len, rc);
            else if (e != (len == 0 ? EINVAL : EMSGSIZE) && (e == EAGAIN || e == EINVAL || e == EMSGSIZE))
                G->violation("C03.bad_size_errno", "%s: xcm_send with %zu bytes failed with %s, expected %s", x->label.c_str(), len, strerror(e), len == 0 ? "EINVAL" : "EMSGSIZE");
            else if (e != EINVAL && e != EMSGSIZE) sc.failed = true;   // the connection itself has ended
            G->count("probe.badsend");
        }
        disarm_faults();
        (void)ok;
    }
    if (sc.failed && !x->closed && !x->saw_eof && !G->stopping) {
        // A terminal condition was reported by some call. Whatever complete messages had arrived must
        // still be obtainable before 0 / the error (C06): keep receiving until the end is reported.
        std::unique_ptr<uint8_t[]> buf(new uint8_t[65536]);
        for (int i = 0; i < 100000 && !G->stopping; i++) {
            int rc = x_receive(x, buf.get(), CX->stream ? 65536 : 65535);
            if (rc > 0) continue;
            if (rc == 0) break;
            if (errno == EAGAIN && x->nonblocking) { if (wait_for(sc, XCM_SO_RECEIVABLE) == W_STOP) break; continue; }
            if (errno == EINTR) continue;
            break;
        }
    }
    if (sc.failed && !x->closed && !G->stopping && G->plan.family == "term") probe_terminal(sc);
    sc.done = !G->stopping && !sc.failed;
    if (!x->closed) x_close(x);
}

static std::vector<std::unique_ptr<Script>> *scripts = nullptr;
static Script *peer_script(Script &sc) {
    if (!sc.x->peer) if (XSock *p = x_find_peer(sc.x)) x_pair(sc.x, p);
    for (auto &o : *scripts) if (o->x == sc.x->peer) return o.get();
    return nullptr;
}
static bool judged_sock(const XSock *x) { return x && !x->ignore_delivery && !x->dying; }

static Script *make_script(const Plan &plan, int task, XSock *x, bool spec, const std::string &who) {
    auto s = std::make_unique<Script>();
    s->x = x;
    s->spec = spec;
    s->who = who;
    for (size_t i = 0; i < plan.ops.size(); i++)
        if (plan.ops[i].task == task && plan.ops[i].kind != "connect") s->ops.emplace_back((int)i, &plan.ops[i]);
    Script *r = s.get();
    scripts->push_back(std::move(s));
    return r;
}

static void setup(const Plan &plan) {
    if (!scripts) scripts = new std::vector<std::unique_ptr<Script>>();
    scripts->clear();
    delete CX;
    CX = new ConvCtx();
    CX->tp = plan.S("tp", "tcp");
    CX->stream = plan.P("stream") != 0;
    CX->nconn = (int)plan.P("nconn", 1);
    CX->addr = addr_for(CX->tp, plan.seed);
    XO.check_counters = plan.P("counters") != 0;
    XO.check_ready_at_await = true;
    XO.judge_unprovoked = plan.P("variant") == 0 && !plan.P("relay");
    if (plan.prop == "C01") G->alias["C03.failed_send_delivered"] = "C01.phantom";   // a message whose xcm_send returned -1 (e.g. EINTR) yet arrives: not in "the sequence for which xcm_send returned success"
    install_basic_tls_files("/cert");
    K->mkdir_p("/tmp");
    if (plan.P("ctl")) { K->mkdir_p("/ctl"); K->env["XCM_CTL"] = "/ctl"; }
    const Plan *pl = &G->plan;

    G->spawn("acceptor", [pl] {
        struct xcm_attr_map *sattrs = nullptr;
        if (CX->stream) { sattrs = xcm_attr_map_create(); xcm_attr_map_add_str(sattrs, "xcm.service", "bytestream"); }
        XSock *srv = x_server(CX->addr, sattrs, pl->P("srv_nb") != 0 || CX->relay, "srv");
        if (sattrs) xcm_attr_map_destroy(sattrs);
        if (!srv->s) {
            G->violation("HARNESS.server", "xcm_server(%s) failed: %s", CX->addr.c_str(), strerror(errno));
            CX->server_failed = true;
            return;
        }
        CX->server_ready = true;
        int accepted = 0;
        int idle_rounds = 0;
        while ((CX->relay ? !(CX->clients_done >= CX->nconn && idle_rounds >= 3) : accepted < CX->nconn) && !G->stopping) {
            if (CX->relay) {
                // how many connections reach the back end is the relay's business (a client may come and go before the
                // relay has connected on): accept whatever arrives until every client is done and nothing is pending
                x_await(srv, XCM_SO_ACCEPTABLE);
                struct pollfd pf = {x_fd(srv), POLLIN, 0};
                int prc = k::poll(&pf, 1, 10);
                if (prc <= 0) { if (CX->clients_done >= CX->nconn) idle_rounds++; continue; }
                idle_rounds = 0;
            } else
            if (srv->nonblocking) {
                x_await(srv, XCM_SO_ACCEPTABLE);
                // C16: a server socket awaiting ACCEPTABLE is readable iff a connection is pending (read from the kernel at one instant)
                {
                    bool pending = false, known = false;
                    for (auto &kf : srv->kfiles) {
                        if (auto t = std::dynamic_pointer_cast<TcpSock>(kf)) { known = true; if (!t->acceptq.empty()) pending = true; }
                        if (auto u = std::dynamic_pointer_cast<UnixSock>(kf)) { known = true; if (!u->acceptq.empty()) pending = true; }
                    }
                    if (known) {
                        bool ready = K->epoll_ready(x_fd(srv));
                        G->count("probe.acceptable_inspected");
                        if (ready != pending)
                            G->violation(pending ? "C16.not_ready_when_met" : "C16.ready_when_idle", "server socket awaiting ACCEPTABLE with %s: its descriptor is %s; registrations: %s", pending ? "a connection pending" : "no connection pending",
                                         ready ? "readable" : "not readable", K->epoll_dump(srv->xfd).c_str());
                    }
                }
                if (!x_wait(srv)) break;
            }
            // C05: every fifth plan asks a non-blocking server for a connection in blocking mode (xcm.blocking=true in the map of
            // xcm_accept_a): the call itself must still not wait, e.g. for a TLS handshake; the connection is switched back at once
            struct xcm_attr_map *bam = nullptr;
            if (srv->nonblocking && !CX->relay && pl->seed % 5 == 0) { bam = xcm_attr_map_create(); xcm_attr_map_add_bool(bam, "xcm.blocking", true); G->count("probe.accept_blocking_attr"); }
            XSock *c = x_accept(srv, bam, strf("s?"));
            if (bam) { xcm_attr_map_destroy(bam); if (c) x_set_blocking(c, false); }
            if (!c) {
                if (errno == EAGAIN || errno == EINTR) continue;
                G->note("accept failed: %s", strerror(errno));
                // an injected fault may end the connection before it is accepted; so may a client that has sent what it had and
                // closed before the (TLS) establishment on this side was complete: the connection is used up either way
                bool client_gone = false;
                for (auto &x : xsocks()) if (!x->is_server && !x->parent && (x->closed || x->closing || x->dying)) client_gone = true;
                if (pl->P("variant") || client_gone) { accepted++; G->count("probe.accept_failed_after_client_left"); }
                continue;
            }
            if (CX->relay) {
                // the peer is the relay: the client introduces itself with a one-byte hello that the relay forwards
                accepted++;
                CX->stasks_spawned++;
                XSock *cc = c;
                G->spawn(strf("s?%d", accepted), [pl, cc] {
                    XSock *c = cc;
                    uint8_t hb[8];
                    int ci = -1;
                    for (int i = 0; i < 100000 && !G->stopping; i++) {
                        int rc = x_receive(c, hb, 1);
                        if (rc == 1) { ci = hb[0]; break; }
                        if (rc == 0 || (rc < 0 && errno != EAGAIN && errno != EINTR)) break;
                        if (c->nonblocking) { x_await(c, XCM_SO_RECEIVABLE); if (!x_wait(c)) break; }
                    }
                    XSock *cl = nullptr;
                    for (auto &u : xsocks()) if (u->label == strf("c%d", ci)) cl = u.get();
                    if (ci < 0 || !cl) {
                        // the client's first byte never came: if the client has already closed this is the close-ordering defect
                        // (the relay drops what it has not forwarded yet), otherwise a loss on a live connection
                        bool some_client_closed = false;
                        for (auto &u : xsocks()) if (u->label.size() >= 2 && u->label[0] == 'c' && u->closed) some_client_closed = true;
                        if (!G->stopping) G->violation(some_client_closed ? "C20.lost_before_close" : "C20.hello_lost", "a relayed connection reached the server but the client's first byte never did%s", some_client_closed ? " (the client had sent it and closed)" : "");
                        x_close(c); CX->stasks_done++; return;
                    }
                    c->label = strf("s%d", ci);
                    c->led_to_app_msgs = c->led_to_app_bytes = 0; c->cnt_valid = false;
                    x_pair(c, cl);
                    if (cl->bytestream) { if (!cl->out_stream.empty()) cl->out_stream.erase(0, 1); } else if (!cl->out_fifo.empty()) cl->out_fifo.pop_front();
                    bool want_nb = pl->P(strf("s%d_nb", ci)) != 0;
                    Script *sc = make_script(*pl, T_SCONN0 + ci, c, pl->P(strf("s%d_spec", ci)) != 0, c->label);
                    sc->sticky = pl->P(strf("s%d_sticky", ci)) != 0;
                    if (c->nonblocking != want_nb) { if (x_set_blocking(c, !want_nb) < 0) sc->failed = true; }
                    run_script(*sc);
                    CX->stasks_done++;
                });
                continue;
            }
            int ci = -1;
            if (c->peer) sscanf(c->peer->label.c_str(), "c%d", &ci);
            if (ci < 0 && CX->nconn == 1) {
                // the only client has gone already (crash-point variants): attribute by elimination
                ci = 0;
                for (auto &u : xsocks()) if (u->label == "c0" && !u->peer) x_pair(c, u.get());
            }
            if (ci < 0) { G->violation("HARNESS.pairing", "accepted connection cannot be attributed to a client"); x_close(c); accepted++; continue; }
            c->label = strf("s%d", ci);
            if (pl->P("cut_dir", -1) == 1) c->dying = true;
            accepted++;
            bool want_nb = pl->P(strf("s%d_nb", ci)) != 0;
            bool spec = pl->P(strf("s%d_spec", ci)) != 0;
            Script *sc = make_script(*pl, T_SCONN0 + ci, c, spec, c->label);
            sc->sticky = pl->P(strf("s%d_sticky", ci)) != 0;
            G->spawn(c->label, [sc, want_nb] {
                if (sc->x->nonblocking != want_nb) { if (x_set_blocking(sc->x, !want_nb) < 0) { sc->failed = true; } }
                run_script(*sc);
            });
        }
        if (CX->relay) {
            block_until([] { return (CX->clients_done >= CX->nconn && CX->stasks_done >= CX->stasks_spawned) || CX->relay_exit_code != -1000; }, -1, "wait for the relayed conversations");
            CX->scripts_done = 2 * CX->nconn;
            if (CX->relay_exit_code == -1000 && !G->stopping) {
                task_sleep(5 * MS);
                sim_raise_signal(15 /* SIGTERM */);
            }
        }
        x_close(srv);
    }, 1, 0);

    for (int c = 0; c < CX->nconn; c++) {
        bool nb = plan.P(strf("c%d_nb", c)) != 0, spec = plan.P(strf("c%d_spec", c)) != 0;
        int netns = CX->tp == "utls_tls" ? 1 : 0;
        G->spawn(strf("c%d", c), [pl, c, nb, spec] {
            struct Done { ~Done() { if (CX) CX->clients_done++; } } done_guard;   // however this task ends, the client is accounted for
            block_until([] { return CX->server_ready || CX->server_failed; }, -1, "wait for server");
            if (CX->server_failed || G->stopping) return;
            bool has_connect = false;
            for (size_t i = 0; i < pl->ops.size(); i++)
                if (pl->ops[i].task == T_CLIENT0 + c && pl->ops[i].kind == "connect") { has_connect = true; arm_faults(pl->ops[i].faults, (int)i); }
            if (!has_connect) return;
            struct xcm_attr_map *cattrs = nullptr;
            if (CX->stream) { cattrs = xcm_attr_map_create(); xcm_attr_map_add_str(cattrs, "xcm.service", CX->fresh_counter % 2 ? "bytestream" : "any"); }
            XSock *x = x_connect(CX->relay ? CX->front_addr : CX->addr, cattrs, nb, strf("c%d", c));
            // (the relay's front server appears a little after the back-end server: a refused attempt is simply repeated)
            for (int tries = 0; CX->relay && !x->s && (errno == ECONNREFUSED || errno == ENOENT) && tries < 200 && !G->stopping; tries++) {
                task_sleep(1 * MS);
                x->label += "(early)";
                x = x_connect(CX->front_addr, cattrs, nb, strf("c%d", c));
            }
            disarm_faults();
            if (cattrs) xcm_attr_map_destroy(cattrs);
            if (!x->s) {
                if (G->stopping) return;   // the run is being unwound: every wait is interrupted
                if (pl->P("variant")) { G->count("probe.connect_failed_in_variant"); CX->client_gone = true; return; }   // an injected fault may legitimately end the attempt
                G->violation("HARNESS.connect", "xcm_connect(%s) failed: %s", CX->addr.c_str(), strerror(errno));
                return;
            }
            if (pl->P("cut_dir", -1) == 0) x->dying = true;
            if (CX->relay) {
                uint8_t hb = (uint8_t)c;
                // byte-stream legs: the hello goes out once the connection is established - a hello refused during the TLS handshake
                // is transmitted all the same (the endpoint's own btls defect, KF-C02-1) and its retry would arrive as a second hello
                for (int i = 0; i < 100000 && CX->stream && x->nonblocking && !G->stopping; i++) {
                    if (x_finish(x) == 0 || (errno != EAGAIN && errno != EINTR)) break;
                    x_await(x, XCM_SO_SENDABLE);
                    if (!x_wait(x)) break;
                }
                for (int i = 0; i < 100000 && !G->stopping; i++) {
                    int rc = x_send(x, &hb, 1);
                    if (rc >= 0) break;
                    if (errno != EAGAIN && errno != EINTR) break;
                    if (x->nonblocking) { x_await(x, XCM_SO_SENDABLE); if (!x_wait(x)) break; }
                }
                x->led_from_app_msgs = x->led_from_app_bytes = 0; x->cnt_valid = false; x->sent_ok = 0; x->stream_sent = 0; x->sent_lens.clear();
            }
            Script *sc = make_script(*pl, T_CLIENT0 + c, x, spec, x->label);
            sc->sticky = pl->P(strf("c%d_sticky", c)) != 0;
            if (pl->P(strf("c%d_ff", c)) && x->nonblocking) { G->count("probe.finish_first"); if (!do_finish(*sc, true) && !G->stopping) sc->failed = true; }
            run_script(*sc);
        }, 1, netns);
    }
}

static std::string task_dump() {
    std::string s;
    for (auto &t : G->tasks) {
        if (t->st == Task::DONE) continue;
        s += strf("[%s parked in %s", t->name.c_str(), t->parked_why.c_str());
        for (auto &x : xsocks())
            if (x->label == t->name && x->xfd >= 0 && !x->closed) s += strf(" xcm_fd=%d ready=%d regs: %s", x->xfd, (int)K->epoll_ready(x->xfd), K->epoll_dump(x->xfd).c_str());
        s += "] ";
    }
    return s;
}

static void finalize(const Plan &plan, EndReason r) {
    const std::string &prop = plan.prop;
    if (r == EndReason::QUIESCENT) {
        // Nothing can ever change again, yet some task has not finished its (deadlock-free) program:
        // a wake-up it was owed never came.
        G->violation("C04.lost_wakeup", "global quiescence with unfinished tasks: %s", task_dump().c_str());
    } else if (r == EndReason::BUDGET) {
        G->violation("C04.no_progress", "step budget exhausted (%llu steps, %lld us simulated): %s", (unsigned long long)G->steps, (long long)(G->now / US), task_dump().c_str());
    } else {
        // all programs finished: every accepted message / byte must have been delivered
        for (auto &sc : *scripts) {
            XSock *x = sc->x;

            if (sc->eof_errno && !x->ignore_delivery && !plan.P("variant") && x->peer && x->peer->closed_after_flush) {
                // the peer closed gracefully after everything was delivered, yet the close is reported as an error
                if (x->peer && x->peer->close_truncated && (sc->eof_errno == EPROTO || sc->eof_errno == ECONNRESET))
                    G->violation("C06.tls_close_notify_truncated", "%s: peer's xcm_close could not write its whole TLS close_notify (socket buffer full); the close is reported as %s instead of 0", sc->who.c_str(), strerror(sc->eof_errno));
                else
                    G->violation("C06.orderly_close_errno", "%s: peer closed gracefully after all data was delivered, but xcm_receive reported %s instead of 0", sc->who.c_str(), strerror(sc->eof_errno));
            }

        }
    }
    // C17: both ends idle and flushed -> the sender's to_lower, the receiver's from_lower and what the
    // applications really exchanged agree (messages and bytes), on every transport alike
    if (r == EndReason::ALL_DONE && XO.check_counters && !plan.P("variant")) {
        for (auto &sc : *scripts) {
            XSock *x = sc->x, *p = x->peer;
            if (!p || !sc->done || !x->final_valid || !p->final_valid || !judged_sock(x) || !judged_sock(p) || x->conn_failed_send || p->conn_failed_send) continue;
            bool peer_done = false;
            for (auto &o : *scripts) if (o->x == p && o->done) peer_done = true;
            if (!peer_done) continue;
            G->count("probe.cross_counter_check");
            const int64_t *a = x->final_cnt, *b = p->final_cnt;   // index: 0 to_app_b 1 from_app_b 2 to_lower_b 3 from_lower_b 4 to_app_m 5 from_app_m 6 to_lower_m 7 from_lower_m
            int64_t sent_bytes = 0;
            for (size_t l : x->sent_lens) sent_bytes += (int64_t)l;
            if (x->bytestream) sent_bytes = (int64_t)x->stream_sent;
            if (a[2] != a[1] || (!x->bytestream && a[6] != a[5]))
                G->violation("C17.flushed", "%s: idle and flushed (xcm_finish == 0) but to_lower %lld bytes/%lld msgs != from_app %lld/%lld", x->label.c_str(), (long long)a[2], (long long)a[6], (long long)a[1], (long long)a[5]);
            if (b[3] != a[2] || (!x->bytestream && b[7] != a[6]))
                G->violation("C17.cross", "%s -> %s: sender to_lower %lld bytes/%lld msgs, receiver from_lower %lld bytes/%lld msgs", x->label.c_str(), p->label.c_str(), (long long)a[2], (long long)a[6], (long long)b[3], (long long)b[7]);
            if (b[3] != sent_bytes || (!x->bytestream && b[7] != (int64_t)x->sent_ok))
                G->violation("C17.exchanged", "%s -> %s: the applications exchanged %lld bytes in %llu messages, receiver from_lower says %lld bytes/%lld msgs", x->label.c_str(), p->label.c_str(), (long long)sent_bytes, (unsigned long long)x->sent_ok, (long long)b[3], (long long)b[7]);
        }
    }
    // non-triviality: some frame/header/byte run was completed over more than one lower call, or a send was refused
    g_run_nontrivial = G->stat["probe.partial_send"] + G->stat["probe.hdr_split_read"] + G->stat["probe.send_eagain"] + G->stat["probe.sndbuf_full"] +
                           G->stat["fault.short_read"] + G->stat["fault.short_write"] + G->stat["probe.segmented_send"] > 0;
    (void)prop;
}

// ------------------------------------------------------------------ family "term": fault enumeration
static Script *script_of_task(int task) {
    std::string who = task >= T_SCONN0 ? strf("s%d", task - T_SCONN0) : strf("c%d", task - T_CLIENT0);
    for (auto &sc : *scripts) if (sc->who == who) return sc.get();
    return nullptr;
}

static void setup_term(const Plan &plan) {
    setup(plan);
    XO.check_refusal = plan.prop == "C03";
    // C03's variants inject refusals and interruptions only: none of them can break a connection
    if (plan.prop == "C03" && !plan.P("relay")) XO.judge_unprovoked = true;
    if (plan.prop == "C03") {
        // exactly-once delivery of every send that returned success is C03's own statement, faults or not
        G->alias["C01.phantom"] = "C03.duplicate_or_phantom";
        G->alias["C01.lost"] = "C03.accepted_not_delivered";
        G->alias["C02.lost"] = "C03.accepted_not_delivered";
    }
    if (plan.P("variant")) {
        // in a variant run the injected fault is the subject: what the delivery and liveness oracles see is this property's
        if (plan.prop == "C03") {
            G->alias["C01.phantom"] = "C03.duplicate_or_phantom";
            G->alias["C01.content"] = "C03.delivery_content";
            G->alias["C01.length"] = "C03.delivery_content";
            G->alias["C02.stream_content"] = "C03.delivery_content";
            G->alias["C02.refused_bytes_delivered"] = "C03.failed_send_delivered";
            G->alias["C01.lost"] = "C03.accepted_not_delivered";
            G->alias["C02.lost"] = "C03.accepted_not_delivered";
            G->alias["C04.lost_wakeup"] = "C03.unusable_after_refusal";
            G->alias["C04.no_progress"] = "C03.unusable_after_refusal";
        } else {
            G->alias["C01.phantom"] = "C06.partial_or_altered_message";
            G->alias["C01.content"] = "C06.partial_or_altered_message";
            G->alias["C01.length"] = "C06.partial_or_altered_message";
            G->alias["C02.stream_content"] = "C06.partial_or_altered_message";
            G->alias["C04.lost_wakeup"] = "C06.never_reported";
            G->alias["C04.no_progress"] = "C06.never_reported";
        }
    }
}

static int64_t wire_total(XSock *x, bool out) {
    for (auto &f : x->kfiles)
        if (auto t = std::dynamic_pointer_cast<TcpSock>(f)) {
            auto &pipe = out ? t->out : t->in;
            if (pipe) return (int64_t)pipe->accepted;
        }
    return 0;
}

static void finalize_term(const Plan &plan, EndReason r) {
    bool variant = plan.P("variant") != 0;
    if (!variant) {
        finalize(plan, r);
        for (auto &x : xsocks())
            if (x->label == "c0") { G->stat["wire.c2s"] = wire_total(x.get(), true); G->stat["wire.s2c"] = wire_total(x.get(), false); }
        return;
    }
    if (r == EndReason::QUIESCENT) {
        // Unfinished tasks at global quiescence. Excused: the side whose host "died" (its kernel no longer
        // answers), and the acceptor when the only connection attempt was ended by the fault.
        std::string stuck;
        for (auto &t : G->tasks) {
            if (t->st == Task::DONE) continue;
            bool excused = false;
            for (auto &x : xsocks()) if (x->label == t->name && x->dying) excused = true;
            if ((plan.P("cut_dir", -1) == 0 && t->name == "c0") || (plan.P("cut_dir", -1) == 1 && t->name == "s0")) excused = true;
            if (t->name == "acceptor") {
                // the acceptor waits for a connection that the fault may have ended before it was established
                bool clients_done = true;
                for (auto &u : G->tasks) if (u->name.size() > 1 && u->name[0] == 'c' && u->st != Task::DONE) clients_done = false;
                if (clients_done || CX->client_gone || plan.P("cut_dir", -1) >= 0) excused = true;
            }
            if (!excused) stuck += t->name + " ";
        }
        if (!stuck.empty())
            G->violation("C04.lost_wakeup", "variant %s: global quiescence with unfinished tasks (a terminal condition or a wake-up never came): %s", plan.S("variant").c_str(), task_dump().c_str());
    } else if (r == EndReason::BUDGET) {
        G->violation("C04.no_progress", "variant %s: step budget exhausted (%llu steps): %s", plan.S("variant").c_str(), (unsigned long long)G->steps, task_dump().c_str());
    }
    // errno variants: the call that discovers the failure reports that errno
    for (auto &op : plan.ops)
        for (auto &f : op.faults) {
            if (f.kind != "errno" || f.arg == EAGAIN || !G->stat.count("fault.applied_errno")) continue;
            Script *sc = script_of_task(op.task);
            if (!sc || !judged_sock(sc->x)) continue;
            XSock *x = sc->x;
            if (f.arg == EPIPE) continue;   // a write into a closed connection: reported as close (EPIPE on send, 0 on receive)
            if (x->term_errno != 0 && x->term_errno != (int)f.arg)
                G->violation("C06.wrong_errno", "%s: the lower %s failed with %s inside %s, but the socket reported %s", x->label.c_str(), f.call.c_str(), strerror((int)f.arg), op.kind.c_str(), strerror(x->term_errno));
            else if (x->term_errno == 0 && (x->saw_eof || x->saw_epipe))
                G->violation("C06.wrong_errno", "%s: the lower %s failed with %s inside %s, but the socket reported an orderly close (%s)", x->label.c_str(), f.call.c_str(), strerror((int)f.arg), op.kind.c_str(), x->saw_eof ? "receive returned 0" : "EPIPE");
        }
    // orderly FIN at a wire offset on the plain framing transports: exactly the complete frames before the cut, then 0
    if (plan.P("cut_dir", -1) >= 0 && plan.P("cut_mode") == 1 && (CX->tp == "tcp") && r == EndReason::ALL_DONE) {
        XSock *dy = nullptr, *vi = nullptr;
        for (auto &x : xsocks()) { if (x->dying) dy = x.get(); }
        if (dy) vi = dy->peer;
        if (dy && vi && vi->saw_eof && !vi->saw_epipe && vi->term_errno == 0 && G->stat.count("fault.cut")) {
            uint64_t off = 0, complete = 0;
            for (size_t l : dy->sent_lens) { off += 4 + l; if ((int64_t)off <= plan.P("cut_at")) complete++; else break; }
            if (vi->recv_ok != complete)
                G->violation("C06.fin_prefix", "%s: peer closed in an orderly way after wire byte %lld; %llu complete message(s) had arrived, xcm_receive delivered %llu before returning 0", vi->label.c_str(), (long long)plan.P("cut_at"), (unsigned long long)complete, (unsigned long long)vi->recv_ok);
        }
    }
    g_run_nontrivial = G->stat.count("fault.applied_errno") || G->stat.count("fault.cut") || G->stat.count("fault.errno.send") || G->stat.count("fault.short.send") ||
                       G->stat.count("fault.eintr.poll") || plan.S("variant").compare(0, 5, "crash") == 0;
}

static Plan variant_of(const Plan &base, const std::string &label) {
    Plan v = base;
    v.sp["variant"] = label;
    return v;
}

static void term_variants(const Plan &base, const Result &ref, std::vector<Plan> &out, size_t cap) {
    const std::string tp = base.S("tp");
    bool tcp_based = tp == "tcp" || tp == "tls" || tp == "btcp" || tp == "btls" || tp == "utls_tls";
    std::vector<Plan> all;
    if (ref.verdict != "ok" || ref.end_reason != "all_done") return;   // the reference execution itself is the report
    if (base.prop == "C03") {
        for (auto &c : ref.calls) {
            if (c.op_index < 0 || c.op_index >= (int)base.ops.size()) continue;
            if (c.call == "send") {
                Plan v = variant_of(base, strf("eagain:op%d:send%d", c.op_index, c.nth_in_op));
                v.ops[c.op_index].faults.push_back(Fault{"errno", "send", c.nth_in_op, EAGAIN, 0});
                all.push_back(v);
                if (c.res > 1 && tcp_based) {
                    Plan w = variant_of(base, strf("short:op%d:send%d", c.op_index, c.nth_in_op));
                    w.ops[c.op_index].faults.push_back(Fault{"short", "send", c.nth_in_op, 1 + (c.res - 1) / 2, 0});
                    w.ops[c.op_index].faults.push_back(Fault{"errno", "send", c.nth_in_op + 1, EAGAIN, 0});
                    all.push_back(w);
                }
            } else if (c.call == "poll") {
                Plan v = variant_of(base, strf("eintr:op%d:poll%d", c.op_index, c.nth_in_op));
                v.ops[c.op_index].faults.push_back(Fault{"eintr", "poll", c.nth_in_op, 0, 0});
                all.push_back(v);
            }
        }
    } else {
        static const int errs[] = {ECONNRESET, ETIMEDOUT, EHOSTUNREACH, ENETUNREACH, ECONNREFUSED, EPIPE};
        if (tcp_based)
            for (auto &c : ref.calls) {
                if (c.op_index < 0 || c.op_index >= (int)base.ops.size() || (c.call != "send" && c.call != "recv")) continue;
                for (int e : errs) {
                    if (e == EPIPE && c.call == "recv") continue;
                    Plan v = variant_of(base, strf("errno:%s:op%d:%s%d", strerror(e), c.op_index, c.call.c_str(), c.nth_in_op));
                    v.ops[c.op_index].faults.push_back(Fault{"errno", c.call, c.nth_in_op, e, 0});
                    all.push_back(v);
                }
            }
        if (tcp_based) {
            std::set<int64_t> bounds;
            int64_t tot[2] = {0, 0};
            auto i0 = ref.stat.find("wire.c2s"), i1 = ref.stat.find("wire.s2c");
            if (i0 != ref.stat.end()) tot[0] = i0->second;
            if (i1 != ref.stat.end()) tot[1] = i1->second;
            std::map<int, int64_t> cum;
            for (auto &c : ref.calls) if (c.call == "send" && c.res > 0) { cum[c.fd] += c.res; bounds.insert(cum[c.fd]); }
            for (int dir = 0; dir < 2; dir++) {
                std::set<int64_t> offs;
                if (tot[dir] <= 160) for (int64_t o = 0; o <= tot[dir]; o++) offs.insert(o);
                else {
                    for (int64_t b : bounds) for (int64_t d = -1; d <= 5; d += (d < 1 ? 1 : 4)) if (b + d >= 0 && b + d <= tot[dir]) offs.insert(b + d);
                    for (int64_t o = 0; o <= 8 && o <= tot[dir]; o++) offs.insert(o);
                }
                for (int64_t o : offs)
                    for (int mode = 1; mode <= 3; mode++) {
                        Plan v = variant_of(base, strf("cut:dir%d:at%lld:mode%d", dir, (long long)o, mode));
                        v.p["cut_dir"] = dir; v.p["cut_at"] = o; v.p["cut_mode"] = mode;
                        all.push_back(v);
                    }
            }
        }
        // crash points: either side closes abruptly before its i-th operation
        for (int task : {T_CLIENT0, T_SCONN0}) {
            std::vector<size_t> idx;
            for (size_t i = 0; i < base.ops.size(); i++) if (base.ops[i].task == task && base.ops[i].kind != "connect") idx.push_back(i);
            for (size_t k = 0; k < idx.size(); k++) {
                Plan v = variant_of(base, strf("crash:task%d:before_op%zu", task, idx[k]));
                std::vector<Op> ops;
                for (size_t i = 0; i < base.ops.size(); i++) {
                    if (base.ops[i].task == task && i >= idx[k]) continue;
                    ops.push_back(base.ops[i]);
                }
                ops.push_back(Op{task, "abort", {}, "", {}, -1});
                v.ops = ops;
                all.push_back(v);
            }
        }
    }
    if (all.size() > cap) {
        // deterministic sample; the evidence counts such scenarios as not completely enumerated
        Rng r(mix64(base.seed, 0x5A));
        for (size_t i = 0; i < cap; i++) { size_t j = i + r.below(all.size() - i); std::swap(all[i], all[j]); }
        all.resize(cap);
        for (auto &v : all) v.p["enum_truncated"] = 1;
    }
    out = std::move(all);
}

// ------------------------------------------------------------------ family "relay" (C20): the real xcmrelay between the endpoints
extern "C" int xcmrelay_main(int argc, char **argv);
extern "C" { extern int optind; }
static jmp_buf relay_exit_jmp;
static bool relay_jmp_armed = false;
static void relay_on_exit(int code) {
    if (!relay_jmp_armed || !cur() || cur()->name != "relay") return;   // exit() from somewhere else: the generic trap reports it
    CX->relay_exit_code = code;
    longjmp(relay_exit_jmp, 1);
}

static void gen_relay(uint64_t seed, const std::string &prop, Plan &plan) {
    GenP gp;
    gp.family = "relay";
    gp.salt = 0x2E1A;
    gp.p_faults = 0.5;
    gp.max_conn = 3;
    gp.max_events = 10;
    gp.p_stream = 0.3;
    gen_with(seed, prop, plan, gp);
    Rng r(mix64(seed, 0x2E1B));
    bool stream = plan.p["stream"] != 0;
    static const char *mt[] = {"ux", "uxf", "tcp", "tls"};
    static const char *st[] = {"btcp", "btls"};
    plan.sp["tp"] = stream ? st[r.below(2)] : mt[r.below(4)];     // clients -> relay
    plan.sp["tp2"] = stream ? st[r.below(2)] : mt[r.below(4)];    // relay -> server
    if (tls_bearing(plan.sp["tp"]) || tls_bearing(plan.sp["tp2"])) {
        if (plan.p["tcp_buf"] < 4096) plan.p["tcp_buf"] = 4096 << r.below(5);
        // byte-wise delivery of TLS records with millisecond gaps makes every hop spin on the partial record (DESIGN.md, observations)
        // and the relayed volume burn the step budget: whole or halved segments only
        if (plan.p["seg_policy"] >= 2 && plan.p["seg_policy"] != 5) plan.p["seg_policy"] = plan.p["seg_policy"] % 2;
    }
    // the traffic volume was sized for the client leg only: the other leg must not be slower than ~2 KiB per round trip
    if (plan.p["tcp_buf"] < 2048) plan.p["tcp_buf"] = 2048 << r.below(4);
    plan.p["counters"] = 0;
    plan.p["ctl"] = 0;
    // the relay's limit of simultaneous relayed connections, small enough to be reached: a further client is served once a slot is free
    plan.p["max_relays"] = r.chance(0.3) ? (int64_t)r.range(1, 3) : 10000;
    // refusals below OpenSSL on an endpoint's own btls leg (ambient EAGAIN / short writes on send, interrupted blocking sends) only
    // re-find the endpoints' KF-C02-1 family, in forms the end-to-end bookkeeping cannot attribute (the hello precedes the pairing)
    if (plan.S("tp") == "btls" || plan.S("tp2") == "btls") { plan.p["eintr_pm"] = 0; plan.p["eagain_send_pm"] = 0; plan.p["short_write_pm"] = 0; }
    plan.p["retry_policy"] = 0;   // endpoints retry a refused byte-stream send with the same bytes (the other policies only re-find KF-C02-1 on their own btls leg)
    // the settle-point inspection presumes a direct connection (kernel idleness of one connection): not here
    std::vector<Op> ops;
    for (auto &op : plan.ops) if (op.kind != "settle" && op.kind != "setblk") ops.push_back(op);
    // in 30 % of the plans one endpoint leaves abruptly in the middle of its conversation: the relay then learns
    // of a dead leg from a failing send or receive while it holds data and (possibly) serves other connections
    if (r.chance(0.3) && !ops.empty()) {
        int conn = (int)r.below((uint64_t)plan.p["nconn"]);
        int task = r.chance(0.5) ? T_CLIENT0 + conn : T_SCONN0 + conn;
        std::vector<size_t> idx;
        for (size_t i = 0; i < ops.size(); i++) if (ops[i].task == task && ops[i].kind != "connect") idx.push_back(i);
        if (idx.size() > 1) {
            size_t at = idx[r.below(idx.size() - 1)];
            ops.insert(ops.begin() + (long)at, Op{task, "abort", {}, "", {}, -1});
            plan.p["has_abort"] = 1;
        }
    }
    plan.ops = ops;
}

static std::string relay_addr(const std::string &tp, bool front) {
    int port = front ? 4800 : 4900;
    if (tp == "ux") return front ? "ux:relay-front" : "ux:relay-back";
    if (tp == "uxf") return front ? "uxf:/tmp/relay-front.sock" : "uxf:/tmp/relay-back.sock";
    return strf("%s:127.0.0.1:%d", tp.c_str(), port);
}

// hook in tools/xcmrelay/rserver.c (guarded by ERICSSON_XCM_VERIF): the relay's administrative limit as a knob
extern "C" { int ericsson_xcm_verif_max_relays = 10000; }

static void setup_relay(const Plan &plan) {
    setup(plan);
    CX->relay = true;
    ericsson_xcm_verif_max_relays = (int)plan.P("max_relays", 10000);
    CX->tp2 = plan.S("tp2", "tcp");
    CX->front_addr = relay_addr(CX->tp, true);
    CX->addr = relay_addr(CX->tp2, false);
    on_sim_exit = relay_on_exit;
    G->alias["C01.content"] = "C20.altered";
    G->alias["C01.length"] = "C20.altered";
    G->alias["C01.phantom"] = "C20.duplicated_or_invented";
    G->alias["C01.lost"] = "C20.lost_before_close";
    G->alias["C02.lost"] = "C20.lost_before_close";
    G->alias["C06.lost_on_close"] = "C20.lost_before_close";
    G->alias["C02.stream_content"] = "C20.altered";
    G->alias["C04.lost_wakeup"] = "C20.stalled";
    G->alias["C04.no_progress"] = "C20.stalled";
    G->alias["C08.abort"] = "C20.relay_crashed";
    G->spawn("relay", [] {
        block_until([] { return CX->server_ready || CX->server_failed; }, -1, "wait for the back-end server");
        if (CX->server_failed || G->stopping) return;
        static char a0[] = "xcmrelay";
        std::string f = CX->front_addr, b = CX->addr;
        char *argv[4] = {a0, &f[0], &b[0], nullptr};
        optind = 1;
        relay_jmp_armed = true;
        // everything the tool and the library under it create is "library-created" for the descriptor monitors
        Task *me = cur();
        me->api_depth++; me->api_name = "xcmrelay"; me->api_nonblocking = false; me->api_sock = nullptr;
        if (setjmp(relay_exit_jmp) == 0) {
            xcmrelay_main(3, argv);
            CX->relay_exit_code = 0;   // (main returns only through exit())
        }
        relay_jmp_armed = false;
        me->api_depth--; me->api_name = "";
        // the relay must not leave while conversations are in progress
        if (!(CX->clients_done >= CX->nconn && CX->stasks_done >= CX->stasks_spawned) && !G->stopping && !CX->relay_live_violation) {
            CX->relay_live_violation = true;
            G->violation("C20.relay_exited", "xcmrelay exited with code %d while endpoint conversations were still in progress (%d of %d clients done)", CX->relay_exit_code, CX->clients_done, CX->nconn);
        } else if (CX->relay_exit_code != 0 && !G->stopping)
            G->violation("C20.relay_exit_code", "xcmrelay exited with code %d after SIGTERM", CX->relay_exit_code);
    }, 1, 0);
}

static void finalize_relay(const Plan &plan, EndReason r) {
    finalize(plan, r);
}

static struct Reg_conv {
    Reg_conv() {
        register_family(Family{"relay", gen_relay, setup_relay, finalize_relay, nullptr, nullptr});
        register_family(Family{"conv", gen, setup, finalize, nullptr, nullptr});
        register_family(Family{"term", gen_term, setup_term, finalize_term, nullptr, term_variants});
    }
} reg;

}  // namespace xs
