// xsim core: seeded PRNG, JSON, plans, tasks + baton scheduler, discrete-event clock.
#pragma once
#include <cstdint>
#include <cstdarg>
#include <cstdio>
#include <cstring>
#include <string>
#include <vector>
#include <map>
#include <set>
#include <deque>
#include <memory>
#include <functional>
#include <pthread.h>

namespace xs {

typedef int64_t Time;  // nanoseconds of simulated time
constexpr Time US = 1000, MS = 1000000, SEC = 1000000000LL;

// ---------------------------------------------------------------- PRNG
struct Rng {
    uint64_t s;
    explicit Rng(uint64_t seed = 1) : s(seed) {}
    uint64_t next() {  // splitmix64
        uint64_t z = (s += 0x9e3779b97f4a7c15ULL);
        z = (z ^ (z >> 30)) * 0xbf58476d1ce4e5b9ULL;
        z = (z ^ (z >> 27)) * 0x94d049bb133111ebULL;
        return z ^ (z >> 31);
    }
    uint64_t below(uint64_t n) { return n ? next() % n : 0; }
    int64_t range(int64_t lo, int64_t hi) { return hi <= lo ? lo : lo + (int64_t)below((uint64_t)(hi - lo + 1)); }
    bool chance(double p) { return p > 0 && (double)(next() >> 11) * (1.0 / 9007199254740992.0) < p; }
    template <class T> const T &pick(const std::vector<T> &v) { return v[below(v.size())]; }
};
uint64_t mix64(uint64_t a, uint64_t b);

// ---------------------------------------------------------------- JSON (small)
struct Json {
    enum T { NUL, BOOL, NUM, STR, ARR, OBJ } t = NUL;
    bool b = false;
    int64_t n = 0;
    double d = 0; bool is_dbl = false;
    std::string s;
    std::vector<Json> a;
    std::vector<std::pair<std::string, Json>> o;
    Json() {}
    Json(bool v) : t(BOOL), b(v) {}
    Json(int v) : t(NUM), n(v) {}
    Json(int64_t v) : t(NUM), n(v) {}
    Json(uint64_t v) : t(NUM), n((int64_t)v) {}
    Json(double v) : t(NUM), d(v), is_dbl(true) {}
    Json(const char *v) : t(STR), s(v) {}
    Json(const std::string &v) : t(STR), s(v) {}
    static Json arr() { Json j; j.t = ARR; return j; }
    static Json obj() { Json j; j.t = OBJ; return j; }
    Json &set(const std::string &k, Json v);
    Json &push(Json v) { a.push_back(std::move(v)); return *this; }
    const Json *get(const std::string &k) const;
    int64_t num(const std::string &k, int64_t def = 0) const;
    std::string str(const std::string &k, const std::string &def = "") const;
    std::string dump() const;
    static bool parse(const std::string &text, Json &out);
};

// ---------------------------------------------------------------- plans
struct Fault {
    std::string kind;     // e.g. "errno", "short", "eintr", "cut"
    std::string call;     // kernel call name the fault attaches to ("send", "recv", "poll", ...)
    int64_t nth = 1;      // n-th such call made by the task while the op runs (1-based)
    int64_t arg = 0;      // errno value / byte count
    int64_t arg2 = 0;
};
struct Op {
    int task = 0;
    std::string kind;
    std::vector<int64_t> n;  // numeric arguments
    std::string s;           // string argument
    std::vector<Fault> faults;
    int g = 0;               // minimisation group: >0 ops of one group are dropped together, 0 independent, <0 structural (kept)
    int64_t arg(size_t i, int64_t def = 0) const { return i < n.size() ? n[i] : def; }
};
struct Plan {
    std::string family, prop;
    uint64_t seed = 0;
    std::map<std::string, int64_t> p;       // numeric knobs
    std::map<std::string, std::string> sp;  // string knobs
    std::vector<Op> ops;
    int64_t P(const std::string &k, int64_t def = 0) const { auto i = p.find(k); return i == p.end() ? def : i->second; }
    std::string S(const std::string &k, const std::string &def = "") const { auto i = sp.find(k); return i == sp.end() ? def : i->second; }
    Json to_json() const;
    static bool from_json(const Json &j, Plan &out);
};

// ---------------------------------------------------------------- tasks and scheduler
struct Task {
    int id = 0;
    int tid = 0;          // simulated thread id
    int pid = 0;          // simulated process id
    int netns = 0;        // current network namespace (index)
    std::string name;
    std::function<void()> fn;
    pthread_t th{};
    uint32_t baton = 0;   // futex word: 1 = may run
    enum St { NEW, RUNNABLE, BLOCKED, DONE } st = NEW;
    std::function<bool()> wake_pred;
    Time deadline = -1;
    bool woke_by_timeout = false;
    bool hard_block = false;        // not released by 'stopping' (modelled mutex waits)
    bool finished_program = false;  // the task's plan-level program ran to its end
    // per-task bookkeeping for monitors
    int api_depth = 0;              // inside an XCM API call
    int api_eagains = 0;            // EAGAIN results seen by the current outermost API call
    int api_fault_errno = 0;        // a connection-breaking errno was injected into a lower read/write of the current outermost API call
    bool api_fault_on_write = false;
    bool api_nonblocking = false;   // ... on a socket in non-blocking mode
    const char *api_name = "";
    void *api_sock = nullptr;
    std::map<std::string, int> callcnt;  // per-op kernel call counters (fault attachment)
    std::vector<Fault> armed;             // explicit faults armed for the running op
    int cur_op = -1;                      // index (in plan.ops) of the op being executed
    uint64_t steps = 0;
    uint64_t wakeups_without_progress = 0;
    std::string parked_why;
    uint64_t poll_kmut = ~0ULL;           // kernel mutation counter when the last poll() returned
    uint64_t poll_sig = 0;                // signature of that poll's descriptor set
    bool close_send_truncated = false;    // a send() issued inside xcm_close was short or refused
    uint64_t steps_at_poll = 0;           // task step counter when the last poll() returned
    uint64_t ops_since_poll = 0;          // XCM data-path calls (send/receive/finish/accept) since the last poll() returned
    bool spin_blocked = false;            // parked by spin compression (descriptor ready, nothing changes)
    uint64_t spins = 0;
    uint64_t same_polls = 0;              // consecutive polls of the same descriptors, ready, with the kernel state unchanged
    void *user = nullptr;
};

enum class EndReason { ALL_DONE, QUIESCENT, BUDGET, ABORTED };

struct Violation {
    std::string oracle;   // "C01.content"
    std::string detail;
};

struct Sim {
    Plan plan;
    Rng r_sched, r_fault, r_net, r_app;
    Time now = 0;
    Time wall_offset = 0;          // wall clock = epoch0 + now + wall_offset
    uint64_t evseq = 0;
    uint64_t steps = 0, step_budget = 2000000;
    uint64_t switches = 0;
    double yield_p = 0.2;
    bool stopping = false;
    bool unwinding = false;   // stop_and_join in progress: waits are interrupted, connections torn down, nothing is judged
    bool verbose = false;
    EndReason end_reason = EndReason::ALL_DONE;
    std::vector<std::unique_ptr<Task>> tasks;
    Task controller;
    uint64_t trace_hash = 1469598103934665603ULL;
    std::vector<Violation> violations;
    std::map<std::string, std::string> alias;  // oracle id -> id it is reported under in this run (fault-enumeration families)
    std::map<std::string, int64_t> stat;       // fired faults, probes, counters
    std::vector<std::string> notes;            // side observations
    struct Ev { Time at; uint64_t seq; std::function<void()> fn; };
    struct EvCmp { bool operator()(const Ev &a, const Ev &b) const { return a.at != b.at ? a.at > b.at : a.seq > b.seq; } };
    std::vector<Ev> evheap;
    uint64_t kmut = 0;   // kernel mutation counter (any state change)

    Task *spawn(const std::string &name, std::function<void()> fn, int pid = 1, int netns = 0);
    EndReason run();                 // called by the controller thread
    void stop_and_join(uint64_t unwind_budget = 200000);  // wake everything in stopping mode, join threads
    void after(Time delay, std::function<void()> fn);
    void violation(const std::string &oracle, const char *fmt, ...) __attribute__((format(printf, 3, 4)));
    void note(const char *fmt, ...) __attribute__((format(printf, 2, 3)));
    void logf(const char *fmt, ...) __attribute__((format(printf, 2, 3)));
    void trace(uint32_t call, int64_t resclass);
    void count(const std::string &k, int64_t d = 1) { stat[k] += d; }
    bool all_programs_finished() const;
};

extern Sim *G;                       // the run in progress (nullptr outside a run)
Task *cur();                         // current simulated task (nullptr on non-simulated threads)
inline bool in_sim() { return G != nullptr && cur() != nullptr; }

void yield_point(const char *what);
std::string lib_call_chain();   // wraps.cc: library frames of the current call, by exported symbol (static functions show as '?')  // one kernel step; the scheduler may switch tasks here
// Park the calling task until pred() holds, the absolute deadline passes (-1: none) or the run
// is stopping. Returns true iff pred() held.
bool block_until(std::function<bool()> pred, Time deadline, const char *why, bool hard = false);
void task_sleep(Time d);

std::string strf(const char *fmt, ...) __attribute__((format(printf, 1, 2)));
std::string hexdump(const void *p, size_t n, size_t max = 32);

}  // namespace xs
