#include "run.h"
#include "pki.h"
#include <algorithm>

extern "C" void log_console_conf(bool enabled);   // libxcm/core/log.c

namespace xs {

static std::vector<Family> *fams() { static auto *v = new std::vector<Family>(); return v; }
void register_family(const Family &f) { fams()->push_back(f); }
const Family *find_family(const std::string &name) {
    for (auto &f : *fams()) if (name == f.name) return &f;
    return nullptr;
}

bool g_run_nontrivial = false;

Json Result::to_json() const {
    Json j = Json::obj();
    j.set("verdict", verdict);
    Json v = Json::arr();
    for (auto &x : violations) v.push(Json::obj().set("oracle", x.oracle).set("detail", x.detail));
    j.set("violations", v);
    j.set("trace_hash", strf("%016llx", (unsigned long long)trace_hash));
    j.set("sim_ns", (int64_t)sim_ns).set("steps", (int64_t)steps).set("switches", (int64_t)switches);
    j.set("end", end_reason).set("nontrivial", nontrivial);
    Json s = Json::obj();
    for (auto &kv : stat) s.set(kv.first, kv.second);
    j.set("stat", s);
    if (!notes.empty()) { Json n = Json::arr(); for (auto &x : notes) n.push(x); j.set("notes", n); }
    return j;
}

void gen_common_knobs(Rng &r, Plan &plan, bool faults) {
    auto &p = plan.p;
    p["s_sched"] = (int64_t)(r.next() >> 1);
    p["s_fault"] = (int64_t)(r.next() >> 1);
    p["s_net"] = (int64_t)(r.next() >> 1);
    p["s_app"] = (int64_t)(r.next() >> 1);
    static const int64_t bufs[] = {1, 2, 3, 5, 7, 16, 64, 300, 4096, 65536, 70000, 262144};
    p["tcp_buf"] = bufs[r.below(12)];
    if (r.chance(0.4)) p["tcp_buf"] = 65536;
    static const int64_t uxq[] = {1, 1, 2, 3, 8, 16, 64};
    p["ux_max_msgs"] = uxq[r.below(7)];
    static const int64_t lats[] = {0, 1, 20, 50, 300, 2000, 20000};
    p["latency_us"] = lats[r.below(7)];
    p["jitter_us"] = r.chance(0.5) ? 0 : (int64_t)r.below(500);
    p["seg_policy"] = (int64_t)r.below(6);
    static const int64_t yp[] = {0, 20, 100, 300, 600, 1000};
    p["yield_pm"] = yp[r.below(6)];
    p["linux_writeable"] = r.chance(0.85);
    if (faults) {
        // swarm: each ambient kind is on for a random subset of runs
        p["short_write_pm"] = r.chance(0.4) ? (int64_t)r.range(50, 500) : 0;
        p["short_read_pm"] = r.chance(0.4) ? (int64_t)r.range(50, 500) : 0;
        p["eagain_send_pm"] = r.chance(0.3) ? (int64_t)r.range(20, 300) : 0;
        p["eagain_recv_pm"] = r.chance(0.3) ? (int64_t)r.range(20, 300) : 0;
        p["delay_pm"] = r.chance(0.2) ? (int64_t)r.range(20, 200) : 0;
        p["eintr_pm"] = r.chance(0.25) ? (int64_t)r.range(30, 400) : 0;   // signals interrupting the library's waits inside blocking calls
    }
    p["debug_log"] = r.chance(0.1);
    p["plain_api"] = r.chance(0.3);     // xcm_connect / xcm_server / xcm_accept instead of the _a variants where no attributes are wanted
}

void install_basic_tls_files(const std::string &dir) {
    const BasicPki &pk = basic_pki();
    K->mkdir_p(dir);
    K->write_file(dir + "/cert.pem", pk.leaf_a->cert_pem);
    K->write_file(dir + "/key.pem", pk.leaf_a->key_pem);
    K->write_file(dir + "/tc.pem", pk.root->cert_pem);
    K->mkdir_p(dir + "/b");
    K->write_file(dir + "/b/cert.pem", pk.leaf_b->cert_pem);
    K->write_file(dir + "/b/key.pem", pk.leaf_b->key_pem);
    K->write_file(dir + "/b/tc.pem", pk.root->cert_pem);
}

void check_conservation(const char *when) {
    bool all_closed = true;
    for (auto &x : xsocks()) if (!x->closed) all_closed = false;
    if (!all_closed) { G->note("conservation check skipped (%s): not every socket was closed", when); return; }
    int nfd = K->lib_fd_count(1);
    if (nfd != 0) G->violation("C08.leak_fd", "%d library-created descriptor(s) still open after every socket was closed: %s", nfd, K->fd_dump(1).c_str());
    if (!K->allocs.empty()) {
        std::vector<size_t> sz;
        for (auto &kv : K->allocs) sz.push_back(kv.second);
        std::sort(sz.begin(), sz.end());
        std::string sizes;
        for (size_t i = 0; i < sz.size() && i < 8; i++) sizes += strf("%zu ", sz[i]);
        G->violation("C08.leak_mem", "%zu heap block(s) (%zu bytes) allocated by library code still live after every socket was closed; sizes: %s", K->allocs.size(), K->live_bytes, sizes.c_str());
    }
    if (K->ssl_ctx_balance != 0) G->violation("C08.leak_ssl_ctx", "SSL_CTX_new/SSL_CTX_free balance is %lld after every socket was closed", (long long)K->ssl_ctx_balance);
    if (K->ssl_balance != 0) G->violation("C08.leak_ssl", "SSL_new/SSL_free balance is %lld after every socket was closed", (long long)K->ssl_balance);
    for (auto &kv : K->fs)
        if (kv.second.type == FsNode::SOCK) G->violation("C08.leak_file", "socket file %s still exists after every socket was closed", kv.first.c_str());
}

static const char *reason_name(EndReason r) {
    switch (r) {
    case EndReason::ALL_DONE: return "all_done";
    case EndReason::QUIESCENT: return "quiescent";
    case EndReason::BUDGET: return "budget";
    case EndReason::ABORTED: return "aborted";
    }
    return "?";
}

Result run_plan(const Plan &plan, bool verbose) {
    Result res;
    const Family *f = find_family(plan.family);
    if (!f) { res.verdict = "error"; res.notes.push_back("unknown family " + plan.family); return res; }
    Sim sim;
    Kernel kern;
    G = &sim;
    K = &kern;
    sim.plan = plan;
    sim.verbose = verbose;
    sim.r_sched = Rng((uint64_t)plan.P("s_sched", 1));
    sim.r_fault = Rng((uint64_t)plan.P("s_fault", 2));
    sim.r_net = Rng((uint64_t)plan.P("s_net", 3));
    sim.r_app = Rng((uint64_t)plan.P("s_app", 4));
    sim.yield_p = plan.P("yield_pm", 200) / 1000.0;
    sim.step_budget = (uint64_t)plan.P("step_budget", 600000);
    kern.tcp_buf = (size_t)plan.P("tcp_buf", 65536);
    kern.ux_max_msgs = (size_t)plan.P("ux_max_msgs", 16);
    kern.base_latency = plan.P("latency_us", 50) * US;
    kern.jitter = plan.P("jitter_us", 0) * US;
    kern.seg_policy = (int)plan.P("seg_policy", 0);
    kern.p_short_write = plan.P("short_write_pm") / 1000.0;
    kern.p_short_read = plan.P("short_read_pm") / 1000.0;
    kern.p_eagain_send = plan.P("eagain_send_pm") / 1000.0;
    kern.p_eagain_recv = plan.P("eagain_recv_pm") / 1000.0;
    kern.p_delay = plan.P("delay_pm") / 1000.0;
    kern.p_eintr = plan.P("eintr_pm") / 1000.0;
    kern.linux_writeable_rule = plan.P("linux_writeable", 1) != 0;
    kern.mtime_gran = plan.P("mtime_gran_ns", 1);
    kern.fail_rescall_at = plan.P("fail_rescall_at", -1);
    kern.fail_rescall_errno = (int)plan.P("fail_rescall_errno", 0);
    kern.fail_rescall_at2 = plan.P("fail_rescall_at2", -1);
    kern.fail_rescall_errno2 = (int)plan.P("fail_rescall_errno2", 0);
    kern.record_calls = plan.P("record_calls", 0) != 0;
    kern.cut_dir = (int)plan.P("cut_dir", -1);
    kern.cut_at = plan.P("cut_at", -1);
    kern.cut_mode = (int)plan.P("cut_mode", 0);
    kern.cut_conn = (int)plan.P("cut_conn", 0);
    kern.hosts["10.0.0.1"] = Host{HostKind::LOCAL, -1};
    kern.hosts["10.0.0.2"] = Host{HostKind::LOCAL, -1};
    kern.hosts["fd00::1"] = Host{HostKind::LOCAL, -1};
    kern.hosts["fd00::2"] = Host{HostKind::LOCAL, -1};
    kern.env["XCM_TLS_CERT"] = "/cert";
    xapi_reset();
    dns_reset();
    event_stub_reset();
    reset_mutex_model();
    on_sim_exit = nullptr;
    det_rand_seed(plan.seed ^ 0x1111);
    g_run_nontrivial = false;
    // swarm knob: the library's console log switched on (every LOG_ macro formats its arguments under the sanitizers;
    // the text itself is discarded by the fputs seam)
    log_console_conf(plan.P("debug_log") != 0);

    f->setup(plan);
    EndReason r = sim.run();
    res.end_reason = reason_name(r);
    f->finalize(plan, r);
    sim.stop_and_join();
    if (sim.stat.count("unwind_stuck")) {
        // threads could not be joined: the process must not run another plan
        sim.violation("C04.stuck", "a task did not unwind within the step budget even though every wait was interrupted (spinning without progress): %s",
                      [&] { std::string s; for (auto &t : sim.tasks) if (t->st != Task::DONE) s += t->name + "@" + t->parked_why + "/" + t->api_name + " "; return s; }().c_str());
        res.stat["must_exit"] = 1;
    } else {
        if (f->after_unwind) f->after_unwind(plan);
        check_conservation("end of run");
    }
    res.violations = sim.violations;
    res.verdict = sim.violations.empty() ? "ok" : "violation";
    res.trace_hash = sim.trace_hash;
    res.sim_ns = sim.now;
    res.steps = sim.steps;
    res.switches = sim.switches;
    res.nontrivial = g_run_nontrivial;
    for (auto &kv : sim.stat) res.stat[kv.first] += kv.second;
    res.stat["peak_xcm_heap"] = (int64_t)kern.peak_bytes;
    res.notes = sim.notes;
    if (kern.record_calls) res.calls = kern.callrec;
    if (res.stat.count("must_exit")) {
        // leave G/K alive: stuck threads still reference them; caller exits the process
        return res;
    }
    xapi_reset();
    log_console_conf(false);
    G = nullptr;
    K = nullptr;
    return res;
}

}  // namespace xs
