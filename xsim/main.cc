// xsim worker: generates and runs plans for a family/property over a seed range, or replays a plan file.
//   xsim run --family F --prop Cxx --base N --count M [--dump-dir D] [--verbose]
//   xsim replay FILE [--verbose]
//   xsim gen --family F --prop Cxx --seed S          (prints the plan)
// Protocol on stdout (one line each, flushed): "START <seed>", "END <seed> <json>".
#include "run.h"
#include "pki.h"
#include <fstream>
#include <sstream>
#include <unistd.h>
#include <ctime>
#include <chrono>
#ifdef XSIM_FLAVOUR_cov
extern "C" int __llvm_profile_write_file(void);
#define XSIM_PROFILE_FLUSH() __llvm_profile_write_file()
#else
#define XSIM_PROFILE_FLUSH() ((void)0)
#endif

using namespace xs;

#ifndef XSIM_FLAVOUR_tsan
extern "C" const char *__asan_default_options() { return "exitcode=77:detect_leaks=0:detect_stack_use_after_return=1:abort_on_error=0:allocator_may_return_null=1"; }
extern "C" const char *__ubsan_default_options() { return "print_stacktrace=1:halt_on_error=1:exitcode=77"; }
#endif
static char g_tsan_logbase[600];
static char g_tsan_opts[900];
// called while the detector initialises itself (before its interceptors work): raw system call and hand-written loops only
static const char *tsan_logbase() {
    if (!g_tsan_logbase[0]) {
        long n = 0;
#ifdef __x86_64__
        const char *lnk = "/proc/self/exe";
        __asm__ volatile("syscall" : "=a"(n) : "0"(89L), "D"(lnk), "S"(g_tsan_logbase), "d"(500L) : "rcx", "r11", "memory");
#endif
        if (n <= 0) { const char *d = "./xsim"; for (n = 0; d[n]; n++) g_tsan_logbase[n] = d[n]; }
        g_tsan_logbase[n] = 0;
        long sl = -1;
        for (long i = 0; i < n; i++) if (g_tsan_logbase[i] == '/') sl = i;
        const char *tail = "/tsanlog";
        long o = sl >= 0 ? sl : n;
        for (long i = 0; tail[i]; i++) g_tsan_logbase[o++] = tail[i];
        g_tsan_logbase[o] = 0;
    }
    return g_tsan_logbase;
}
extern "C" const char *__tsan_default_options() {
    const char *pre = "exitcode=0:halt_on_error=0:report_signal_unsafe=0:second_deadlock_stack=1:history_size=4:color=never:log_path=";
    long o = 0;
    for (long i = 0; pre[i]; i++) g_tsan_opts[o++] = pre[i];
    const char *lb = tsan_logbase();
    for (long i = 0; lb[i]; i++) g_tsan_opts[o++] = lb[i];
    g_tsan_opts[o] = 0;
    return g_tsan_opts;
}

// ThreadSanitizer flavour: reports go to a per-process log; after every run the new ones are read and kept only if *both*
// accesses are made by XCM code (innermost frame with a source location lies under /repo/). Everything else is the harness's
// own memory, handed between tasks under the scheduler's baton, which the detector cannot see by design.
#ifdef XSIM_FLAVOUR_tsan
#include <fstream>
static size_t g_tsan_off = 0;
static void collect_tsan(Result &r) {
    std::string path = strf("%s.%d", tsan_logbase(), (int)getpid());
    static bool reg = false;
    if (!reg) { reg = true; atexit([] { unlink(strf("%s.%d", tsan_logbase(), (int)getpid()).c_str()); }); }
    std::ifstream in(path);
    if (!in) return;
    in.seekg((std::streamoff)g_tsan_off);
    std::string all((std::istreambuf_iterator<char>(in)), std::istreambuf_iterator<char>());
    g_tsan_off += all.size();
    size_t pos = 0;
    int kept = 0, dropped = 0;
    while ((pos = all.find("WARNING: ThreadSanitizer: data race", pos)) != std::string::npos) {
        size_t end = all.find("SUMMARY: ThreadSanitizer", pos);
        if (end == std::string::npos) end = all.size();
        std::string rep = all.substr(pos, end - pos);
        pos = end;
        // split into access blocks
        std::vector<std::string> sites;
        size_t p = 0;
        int blocks = 0, xcm_blocks = 0;
        while (p < rep.size()) {
            size_t nl = rep.find('\n', p);
            if (nl == std::string::npos) nl = rep.size();
            std::string line = rep.substr(p, nl - p);
            p = nl + 1;
            bool hdr = (line.find(" of size ") != std::string::npos && line.find(" by ") != std::string::npos && line.compare(0, 2, "  ") == 0 && line.find("#") == std::string::npos);
            if (!hdr) continue;
            if (line.find("Location") != std::string::npos) continue;
            blocks++;
            // innermost frame that has a source location
            size_t q = p;
            while (q < rep.size()) {
                size_t e2 = rep.find('\n', q);
                if (e2 == std::string::npos) e2 = rep.size();
                std::string fl = rep.substr(q, e2 - q);
                q = e2 + 1;
                if (fl.find("    #") != 0) break;
                size_t sl = fl.find(" /");
                if (sl == std::string::npos) continue;   // interceptor or library frame without source
                if (fl.compare(sl + 1, 6, "/repo/") == 0) {
                    xcm_blocks++;
                    size_t fs = fl.find(' ', 6);
                    std::string site = fl.substr(fs == std::string::npos ? 0 : fs + 1, 160);
                    size_t cut = site.find(" (xsim+");
                    if (cut != std::string::npos) site.resize(cut);
                    sites.push_back(site);
                }
                break;
            }
        }
        if (blocks >= 2 && xcm_blocks >= 2) {
            kept++;
            if (r.violations.size() < 16) r.violations.push_back(Violation{"C15.data_race", strf("ThreadSanitizer: data race between %s and %s", sites[0].c_str(), sites[1].c_str())});
            r.verdict = "violation";
        } else dropped++;
    }
    r.stat["probe.tsan_reports_in_xcm"] = kept;
    r.stat["probe.tsan_reports_harness_only"] = dropped;
}
#else
static void collect_tsan(Result &) {}
#endif

// real wall clock (time() is redirected to the simulated clock in this executable)
static long long real_now_s() { return (long long)std::chrono::duration_cast<std::chrono::seconds>(std::chrono::system_clock::now().time_since_epoch()).count(); }
static uint64_t g_cur_seed = 0;
static Plan g_cur_plan;
static std::string g_dump_dir;

static std::string dump_plan(const Plan &p, const std::string &tag) {
    if (g_dump_dir.empty()) return "";
    std::string path = strf("%s/%s-%s-%llu%s.json", g_dump_dir.c_str(), p.prop.c_str(), p.family.c_str(), (unsigned long long)p.seed, tag.c_str());
    std::ofstream o(path);
    o << p.to_json().dump() << "\n";
    return path;
}

static void fatal_cb(const char *oracle, const char *detail) {
    // abort()/exit()/assert inside the simulated process: report the run as a violation and leave
    Result r;
    r.verdict = "violation";
    if (G) r.violations = G->violations;
    if (r.violations.empty()) r.violations.push_back(Violation{oracle, detail});
    r.end_reason = "aborted";
    if (G) { r.trace_hash = G->trace_hash; r.sim_ns = G->now; r.steps = G->steps; for (auto &kv : G->stat) r.stat[kv.first] = kv.second; }
    r.stat["must_exit"] = 1;
    Json j = r.to_json();
    std::string path = dump_plan(g_cur_plan, g_cur_plan.P("variant") ? strf("-v%lld", (long long)g_cur_plan.P("variant")) : std::string());
    if (!path.empty()) j.set("plan_file", path);
    if (g_cur_plan.P("variant")) j.set("variant", g_cur_plan.P("variant"));
    printf("END %llu %s\n", (unsigned long long)g_cur_seed, j.dump().c_str());
    fflush(stdout);
    XSIM_PROFILE_FLUSH(), _exit(0);
}

static bool read_file(const std::string &path, std::string &out) {
    std::ifstream i(path);
    if (!i) return false;
    std::stringstream ss;
    ss << i.rdbuf();
    out = ss.str();
    return true;
}

int main(int argc, char **argv) {
    setvbuf(stdout, nullptr, _IOLBF, 0);
    det_rand_install();
    on_fatal = fatal_cb;
    std::string mode = argc > 1 ? argv[1] : "";
    std::string family, prop, file;
    uint64_t base = 1, count = 1, seed = 1;
    bool verbose = false;
    uint64_t first_variant = 0;   // resume the enumeration of seed <base> at this variant (the worker that ran the earlier ones was retired)
    long long deadline = 0;   // wall-clock second after which no new execution is started (batch budget; never read inside a run)
    for (int i = 2; i < argc; i++) {
        std::string a = argv[i];
        auto next = [&] { return i + 1 < argc ? std::string(argv[++i]) : std::string(); };
        if (a == "--family") family = next();
        else if (a == "--prop") prop = next();
        else if (a == "--base") base = strtoull(next().c_str(), nullptr, 10);
        else if (a == "--count") count = strtoull(next().c_str(), nullptr, 10);
        else if (a == "--seed") seed = strtoull(next().c_str(), nullptr, 10);
        else if (a == "--dump-dir") g_dump_dir = next();
        else if (a == "--deadline") deadline = strtoll(next().c_str(), nullptr, 10);
        else if (a == "--first-variant") first_variant = strtoull(next().c_str(), nullptr, 10);
        else if (a == "--verbose") verbose = true;
        else if (file.empty()) file = a;
    }
    basic_pki();
    if (mode == "gen") {
        const Family *f = find_family(family);
        if (!f) { fprintf(stderr, "unknown family %s\n", family.c_str()); return 2; }
        Plan p;
        f->gen(seed, prop, p);
        printf("%s\n", p.to_json().dump().c_str());
        return 0;
    }
    if (mode == "replay" || mode == "run") {
        // see threads_warmup_plan()
        bool th = family == "threads";
        if (mode == "replay" && !th) { std::string t0; Json j0; Plan q; if (read_file(file, t0) && Json::parse(t0, j0) && Plan::from_json(j0, q)) th = q.family == "threads"; }
        if (th) {
            // a crash inside the warm-up is attributed to the first plan of the range (its replay repeats the warm-up)
            if (mode == "run") { printf("START %llu\n", (unsigned long long)base); fflush(stdout); }
            Result w = run_plan(threads_warmup_plan(), false);
            collect_tsan(w);
            if (mode == "run") { printf("WARMED\n"); fflush(stdout); }
        }
    }
    if (mode == "replay") {
        std::string text;
        Json j;
        Plan p;
        if (!read_file(file, text) || !Json::parse(text, j) || !Plan::from_json(j, p)) { fprintf(stderr, "cannot read plan %s\n", file.c_str()); return 2; }
        g_cur_seed = p.seed;
        g_cur_plan = p;
        printf("START %llu\n", (unsigned long long)p.seed);
        Result r = run_plan(p, verbose);
        collect_tsan(r);
        printf("END %llu %s\n", (unsigned long long)p.seed, r.to_json().dump().c_str());
        fflush(stdout);
        if (r.stat.count("must_exit")) XSIM_PROFILE_FLUSH(), _exit(r.verdict == "ok" ? 0 : 1);
        return r.verdict == "ok" ? 0 : 1;
    }
    if (mode == "run") {
        const Family *f = find_family(family);
        if (!f) { fprintf(stderr, "unknown family %s\n", family.c_str()); return 2; }
        auto retire_if_dirty = [](const Result &r) {
            // after any violation that may leave process-wide state behind the process is retired:
            // no run may start from a state another left behind
            bool dirty = r.stat.count("must_exit") > 0;
            for (auto &v : r.violations)
                if (v.oracle.compare(0, 4, "C08.") == 0 || v.oracle.compare(0, 8, "HARNESS.") == 0 || v.oracle.compare(0, 4, "C04.") == 0) dirty = true;
            if (dirty) { fflush(stdout); XSIM_PROFILE_FLUSH(), _exit(0); }
        };
        for (uint64_t s = base; s < base + count; s++) {
            if (deadline && real_now_s() >= deadline) break;
            Plan p;
            f->gen(s, prop, p);
            if (f->variants) p.p["record_calls"] = 1;
            g_cur_seed = s;
            g_cur_plan = p;
            bool resume = first_variant > 0 && s == base;
            if (!resume) printf("START %llu\n", (unsigned long long)s);
            auto t0 = std::chrono::steady_clock::now();
            Result r = run_plan(p, verbose);
            collect_tsan(r);
            Json j = r.to_json();
            j.set("wall_ms", (int64_t)std::chrono::duration_cast<std::chrono::milliseconds>(std::chrono::steady_clock::now() - t0).count());
            if (r.verdict != "ok") {
                std::string path = dump_plan(p, "");
                if (!path.empty()) j.set("plan_file", path);
            }
            if (!resume) {   // (when resuming, the reference execution is only repeated to regenerate the variants)
                printf("END %llu %s\n", (unsigned long long)s, j.dump().c_str());
                fflush(stdout);
                retire_if_dirty(r);
            } else if (r.stat.count("must_exit")) XSIM_PROFILE_FLUSH(), _exit(0);
            if (!f->variants) continue;
            // fault enumeration: every variant of the reference execution is an explicit plan of its own
            std::vector<Plan> vs;
            f->variants(p, r, vs, (size_t)p.P("variant_cap", 240));
            r.calls.clear();
            size_t vdone = 0;
            bool truncated = !vs.empty() && vs[0].P("enum_truncated") != 0;
            for (size_t vi = (resume ? (size_t)first_variant - 1 : 0); vi < vs.size(); vi++) {
                if (deadline && real_now_s() >= deadline + 20) { truncated = true; break; }   // grace: finish scenarios that are nearly done
                Plan &vp = vs[vi];
                vp.p["variant"] = (int64_t)vi + 1;
                vp.p.erase("record_calls");
                g_cur_plan = vp;
                std::string curpath;
                if (!g_dump_dir.empty()) {
                    curpath = strf("%s/cur-%d.json", g_dump_dir.c_str(), (int)getpid());
                    std::ofstream o(curpath);
                    o << vp.to_json().dump() << "\n";
                }
                printf("START %llu %zu %s\n", (unsigned long long)s, vi + 1, curpath.c_str());
                auto t0 = std::chrono::steady_clock::now();
                Result vr = run_plan(vp, verbose);
                Json vj = vr.to_json();
                vj.set("wall_ms", (int64_t)std::chrono::duration_cast<std::chrono::milliseconds>(std::chrono::steady_clock::now() - t0).count());
                vj.set("variant", (int64_t)vi + 1);
                vj.set("variant_kind", vp.S("variant"));
                if (vr.verdict != "ok") {
                    std::string path = dump_plan(vp, strf("-v%zu", vi + 1));
                    if (!path.empty()) vj.set("plan_file", path);
                }
                printf("END %llu %s\n", (unsigned long long)s, vj.dump().c_str());
                fflush(stdout);
                vdone++;
                if (vi + 1 < vs.size()) retire_if_dirty(vr);
                else { printf("SCEN %llu %zu %d\n", (unsigned long long)s, vs.size(), truncated ? 0 : 1); fflush(stdout); retire_if_dirty(vr); }
            }
            if (vdone + (resume ? first_variant - 1 : 0) < vs.size() || vs.empty()) { printf("SCEN %llu %zu %d\n", (unsigned long long)s, vdone, (truncated || !vs.empty()) ? 0 : 1); fflush(stdout); }
        }
        return 0;
    }
    fprintf(stderr, "usage: xsim run|replay|gen ...\n");
    return 2;
}
