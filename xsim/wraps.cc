// Link-time seam: every libc entry the XCM objects use (-Wl,--wrap=sym) lands here and is routed
// to the simulated kernel when called from a simulated task, to the real function otherwise.
#include "kernel.h"
#include "hooks.h"
#include <cerrno>
#include <cstdarg>
#include <cstdlib>
#include <dirent.h>
#include <fcntl.h>
#include <sys/epoll.h>
#include <sys/syscall.h>
#include <sys/timerfd.h>
#include <unistd.h>
#include <execinfo.h>
#include <openssl/ssl.h>
#ifdef XSIM_FLAVOUR_cov
extern "C" int __llvm_profile_write_file(void);
#define XSIM_PROFILE_FLUSH() __llvm_profile_write_file()
#else
#define XSIM_PROFILE_FLUSH() ((void)0)
#endif

using namespace xs;

extern "C" {
int __real_socket(int, int, int);
int __real_bind(int, const struct sockaddr *, socklen_t);
int __real_listen(int, int);
int __real_connect(int, const struct sockaddr *, socklen_t);
int __real_accept4(int, struct sockaddr *, socklen_t *, int);
int __real_accept(int, struct sockaddr *, socklen_t *);
ssize_t __real_send(int, const void *, size_t, int);
ssize_t __real_recv(int, void *, size_t, int);
int __real_close(int);
int __real_getsockname(int, struct sockaddr *, socklen_t *);
int __real_getpeername(int, struct sockaddr *, socklen_t *);
int __real_getsockopt(int, int, int, void *, socklen_t *);
int __real_setsockopt(int, int, int, const void *, socklen_t);
int __real_fcntl(int, int, ...);
int __real_poll(struct pollfd *, nfds_t, int);
int __real_epoll_create1(int);
int __real_epoll_ctl(int, int, int, struct epoll_event *);
int __real_eventfd(unsigned, int);
int __real_timerfd_create(int, int);
int __real_timerfd_settime(int, int, const struct itimerspec *, struct itimerspec *);
int __real_clock_gettime(clockid_t, struct timespec *);
int __real_stat(const char *, struct stat *);
int __real_lstat(const char *, struct stat *);
FILE *__real_fopen(const char *, const char *);
int __real_unlink(const char *);
DIR *__real_opendir(const char *);
struct dirent *__real_readdir(DIR *);
int __real_closedir(DIR *);
pid_t __real_getpid(void);
char *__real_getenv(const char *);
long __real_syscall(long, ...);
void __real_abort(void) __attribute__((noreturn));
void __real_exit(int) __attribute__((noreturn));
void __real___assert_fail(const char *, const char *, unsigned, const char *) __attribute__((noreturn));
int __real_pthread_mutex_lock(pthread_mutex_t *);
int __real_pthread_mutex_unlock(pthread_mutex_t *);
void *__real_malloc(size_t);
void *__real_calloc(size_t, size_t);
void *__real_realloc(void *, size_t);
void __real_free(void *);
char *__real_strdup(const char *);
char *__real_strndup(const char *, size_t);
int __real_vasprintf(char **, const char *, va_list);
int __real_nanosleep(const struct timespec *, struct timespec *);
int __real_usleep(useconds_t);
unsigned __real_sleep(unsigned);
int __real_select(int, fd_set *, fd_set *, fd_set *, struct timeval *);
int __real_epoll_wait(int, struct epoll_event *, int, int);
ssize_t __real_read(int, void *, size_t);
ssize_t __real_write(int, const void *, size_t);
void __real_perror(const char *);
SSL_CTX *__real_SSL_CTX_new(const SSL_METHOD *);
void __real_SSL_CTX_free(SSL_CTX *);
SSL *__real_SSL_new(SSL_CTX *);
void __real_SSL_free(SSL *);
}

namespace xs {
void (*on_fatal)(const char *oracle, const char *detail) = nullptr;
void (*on_sim_exit)(int code) = nullptr;

// call chain of the trap, by exported symbol names (static functions show as '?'): identifies the failing site
std::string lib_call_chain() {
    void *bt[24];
    int n = backtrace(bt, 24);
    char **sym = backtrace_symbols(bt, n);
    std::string s;
    int shown = 0;
    if (__real_getenv("XSIM_DBG_BT")) for (int i = 0; i < n && sym; i++) fprintf(stderr, "BT %d %s\n", i, sym[i]);
    // the library frames start right after the seam (__wrap_<call>) through which the library entered the harness
    bool seen_seam = false;
    for (int i = 1; i < n && sym && shown < 6; i++) {
        const char *l = strchr(sym[i], '('), *r = l ? strchr(l, '+') : nullptr;
        std::string f = (l && r && r > l + 1) ? std::string(l + 1, r) : std::string("?");
        bool seam = f.compare(0, 6, "__wrap") == 0;
        if (!seen_seam) { seen_seam = seam; continue; }
        if (seam) continue;
        if (f.compare(0, 2, "_Z") == 0 || strstr(sym[i], "/lib/")) break;   // back in harness frames (the task body) or inside another library
        s += (shown++ ? " < " : "") + f;
    }
    free(sym);
    return s;
}
static std::string trap_site() { return lib_call_chain(); }

static void fatal_trap(const char *oracle, const char *detail) {
    if (G) G->violation(oracle, "%s", detail);
    if (on_fatal) on_fatal(oracle, detail);
    fprintf(stderr, "xsim: fatal trap %s: %s\n", oracle, detail);
    XSIM_PROFILE_FLUSH(), _exit(70);
}

// ---- modelled mutexes
static std::map<pthread_mutex_t *, Task *> *mtx_owner() {
    static auto *m = new std::map<pthread_mutex_t *, Task *>();
    return m;
}
void reset_mutex_model() { mtx_owner()->clear(); }
}  // namespace xs

#define SIM in_sim()

extern "C" {

// the library's console log (XCM_DEBUG): formatted under the sanitizers, text discarded
int __real_fputs(const char *, FILE *);
int __wrap_fputs(const char *str, FILE *f) {
    if (SIM && f == stderr && G->plan.P("debug_log")) { G->count("probe.debug_log_lines"); return 1; }
    return __real_fputs(str, f);
}
int __wrap_socket(int d, int t, int p) { return SIM ? k::socket(d, t, p) : __real_socket(d, t, p); }
int __wrap_bind(int fd, const struct sockaddr *sa, socklen_t l) { return SIM ? k::bind(fd, sa, l) : __real_bind(fd, sa, l); }
int __wrap_listen(int fd, int b) { return SIM ? k::listen(fd, b) : __real_listen(fd, b); }
int __wrap_connect(int fd, const struct sockaddr *sa, socklen_t l) { return SIM ? k::connect(fd, sa, l) : __real_connect(fd, sa, l); }
int __wrap_accept4(int fd, struct sockaddr *sa, socklen_t *l, int f) { return SIM ? k::accept4(fd, sa, l, f) : __real_accept4(fd, sa, l, f); }
int __wrap_accept(int fd, struct sockaddr *sa, socklen_t *l) { return SIM ? k::accept4(fd, sa, l, 0) : __real_accept(fd, sa, l); }
ssize_t __wrap_send(int fd, const void *b, size_t n, int f) { return SIM ? k::send(fd, b, n, f) : __real_send(fd, b, n, f); }
ssize_t __wrap_recv(int fd, void *b, size_t n, int f) { return SIM ? k::recv(fd, b, n, f) : __real_recv(fd, b, n, f); }
int __wrap_close(int fd) { return SIM ? k::close(fd) : __real_close(fd); }
int __wrap_getsockname(int fd, struct sockaddr *sa, socklen_t *l) { return SIM ? k::getsockname(fd, sa, l) : __real_getsockname(fd, sa, l); }
int __wrap_getpeername(int fd, struct sockaddr *sa, socklen_t *l) { return SIM ? k::getpeername(fd, sa, l) : __real_getpeername(fd, sa, l); }
int __wrap_getsockopt(int fd, int lv, int n, void *v, socklen_t *l) { return SIM ? k::getsockopt(fd, lv, n, v, l) : __real_getsockopt(fd, lv, n, v, l); }
int __wrap_setsockopt(int fd, int lv, int n, const void *v, socklen_t l) { return SIM ? k::setsockopt(fd, lv, n, v, l) : __real_setsockopt(fd, lv, n, v, l); }
int __wrap_fcntl(int fd, int cmd, ...) {
    va_list ap;
    va_start(ap, cmd);
    long arg = va_arg(ap, long);
    va_end(ap);
    return SIM ? k::fcntl(fd, cmd, arg) : __real_fcntl(fd, cmd, arg);
}
int __wrap_poll(struct pollfd *f, nfds_t n, int t) { return SIM ? k::poll(f, n, t) : __real_poll(f, n, t); }
int __wrap_epoll_create1(int f) { return SIM ? k::epoll_create1(f) : __real_epoll_create1(f); }
int __wrap_epoll_ctl(int e, int op, int fd, struct epoll_event *ev) { return SIM ? k::epoll_ctl(e, op, fd, ev) : __real_epoll_ctl(e, op, fd, ev); }
int __wrap_eventfd(unsigned i, int f) { return SIM ? k::eventfd(i, f) : __real_eventfd(i, f); }
int __wrap_timerfd_create(int c, int f) { return SIM ? k::timerfd_create(c, f) : __real_timerfd_create(c, f); }
int __wrap_timerfd_settime(int fd, int f, const struct itimerspec *n, struct itimerspec *o) { return SIM ? k::timerfd_settime(fd, f, n, o) : __real_timerfd_settime(fd, f, n, o); }
int __wrap_clock_gettime(clockid_t c, struct timespec *ts) { return SIM ? k::clock_gettime(c, ts) : __real_clock_gettime(c, ts); }
int __wrap_stat(const char *p, struct stat *st) { return SIM ? k::stat(p, st, true) : __real_stat(p, st); }
int __wrap_lstat(const char *p, struct stat *st) { return SIM ? k::stat(p, st, false) : __real_lstat(p, st); }
FILE *__wrap_fopen(const char *p, const char *m) { return SIM ? k::fopen(p, m) : __real_fopen(p, m); }
int __wrap_unlink(const char *p) { return SIM ? k::unlink(p) : __real_unlink(p); }
DIR *__wrap_opendir(const char *p) { return SIM ? (DIR *)k::opendir(p) : __real_opendir(p); }
struct dirent *__wrap_readdir(DIR *d) { return SIM ? k::readdir(d) : __real_readdir(d); }
int __wrap_closedir(DIR *d) { return SIM ? k::closedir(d) : __real_closedir(d); }
pid_t __wrap_getpid(void) { return SIM ? cur()->pid + 4000 : __real_getpid(); }
char *__wrap_getenv(const char *n) {
    if (SIM && K) return k::getenv(n);
    return __real_getenv(n);
}
long __wrap_syscall(long nr, ...) {
    va_list ap;
    va_start(ap, nr);
    long a = va_arg(ap, long), b = va_arg(ap, long), c = va_arg(ap, long), d = va_arg(ap, long), e = va_arg(ap, long), f = va_arg(ap, long);
    va_end(ap);
    if (SIM && nr == SYS_gettid) return cur()->tid;
    return __real_syscall(nr, a, b, c, d, e, f);
}

void __wrap_abort(void) {
    if (SIM) fatal_trap("C08.abort", strf("abort() called by library code (task %s, inside %s; call chain: %s)", cur()->name.c_str(), cur()->api_name, trap_site().c_str()).c_str());
    __real_abort();
}
void __wrap_exit(int code) {
    if (SIM) {
        if (xs::on_sim_exit) xs::on_sim_exit(code);  // relay task: unwinds via exception
        fatal_trap("C08.exit", strf("exit(%d) called inside the simulated process (task %s)", code, cur()->name.c_str()).c_str());
    }
    __real_exit(code);
}
void __wrap___assert_fail(const char *expr, const char *file, unsigned line, const char *fn) {
    if (SIM) fatal_trap("C08.abort", strf("assert(%s) failed at %s:%u (%s), task %s inside %s", expr, file, line, fn, cur()->name.c_str(), cur()->api_name).c_str());
    __real___assert_fail(expr, file, line, fn);
}

int __wrap_pthread_mutex_lock(pthread_mutex_t *m) {
    if (!SIM) return __real_pthread_mutex_lock(m);
    auto &own = *mtx_owner();
    Task *me = cur();
    yield_point("mutex_lock");
    auto it = own.find(m);
    if (it != own.end() && it->second != me) {
        G->count("probe.mutex_contended");
        block_until([m] { auto &o = *mtx_owner(); return o.find(m) == o.end(); }, -1, "mutex", true);
    }
    own[m] = me;
    return __real_pthread_mutex_lock(m);
}
int __wrap_pthread_mutex_unlock(pthread_mutex_t *m) {
    if (!SIM) return __real_pthread_mutex_unlock(m);
    mtx_owner()->erase(m);
    int rc = __real_pthread_mutex_unlock(m);
    yield_point("mutex_unlock");
    return rc;
}

#ifdef XSIM_FLAVOUR_tsan
// ThreadSanitizer build: XCM's __atomic builtins compile into calls of the detector's entry points. Scheduling decisions before
// after each load makes the window between a relaxed load and the matching store visible to the seeded scheduler.
#define TSAN_ATOMIC_WRAP(BITS, T)                                                                              \
    T __real___tsan_atomic##BITS##_load(const volatile T *a, int mo);                                          \
    void __real___tsan_atomic##BITS##_store(volatile T *a, T v, int mo);                                       \
    T __wrap___tsan_atomic##BITS##_load(const volatile T *a, int mo) {                                         \
        T v = __real___tsan_atomic##BITS##_load(a, mo);                                                        \
        if (SIM && (cur() && cur()->api_depth > 0)) { G->count("probe.atomic_load"); yield_point("atomic_load"); }                \
        return v;                                                                                              \
    }                                                                                                          \
    void __wrap___tsan_atomic##BITS##_store(volatile T *a, T v, int mo) {                                      \
        /* no scheduling decision here: stores happen on the cold path of once-per-process caches only, and a run must not */ \
        /* depend on what earlier runs of the same worker process left cached (replay determinism)                         */ \
        __real___tsan_atomic##BITS##_store(a, v, mo);                                                          \
    }
TSAN_ATOMIC_WRAP(8, unsigned char)
TSAN_ATOMIC_WRAP(32, int)
TSAN_ATOMIC_WRAP(64, long)
long __real___tsan_atomic64_fetch_add(volatile long *a, long v, int mo);
long __wrap___tsan_atomic64_fetch_add(volatile long *a, long v, int mo) {
    if (SIM && (cur() && cur()->api_depth > 0)) yield_point("atomic_rmw");
    return __real___tsan_atomic64_fetch_add(a, v, mo);
}
int __real___tsan_atomic32_fetch_add(volatile int *a, int v, int mo);
int __wrap___tsan_atomic32_fetch_add(volatile int *a, int v, int mo) {
    if (SIM && (cur() && cur()->api_depth > 0)) yield_point("atomic_rmw");
    return __real___tsan_atomic32_fetch_add(a, v, mo);
}
#endif

// ---- allocation accounting (XCM objects only: the harness allocates through operator new)
static void track_add(void *p, size_t n) {
    if (!p || !SIM || !K || !K->track_allocs) return;
    K->allocs[p] = n;
    K->live_bytes += n;
    if (K->live_bytes > K->peak_bytes) K->peak_bytes = K->live_bytes;
}
static void track_del(void *p) {
    if (!p || !G || !K || !K->track_allocs) return;
    auto i = K->allocs.find(p);
    if (i == K->allocs.end()) return;
    K->live_bytes -= i->second;
    K->allocs.erase(i);
}
void *__wrap_malloc(size_t n) { void *p = __real_malloc(n); track_add(p, n); return p; }
void *__wrap_calloc(size_t a, size_t b) { void *p = __real_calloc(a, b); track_add(p, a * b); return p; }
void *__wrap_realloc(void *o, size_t n) {
    if (o) track_del(o);
    void *p = __real_realloc(o, n);
    track_add(p, n);
    return p;
}
void __wrap_free(void *p) { track_del(p); __real_free(p); }
char *__wrap_strdup(const char *s) { char *p = __real_strdup(s); track_add(p, p ? strlen(p) + 1 : 0); return p; }
char *__wrap_strndup(const char *s, size_t n) { char *p = __real_strndup(s, n); track_add(p, p ? strlen(p) + 1 : 0); return p; }
int __wrap_vasprintf(char **out, const char *fmt, va_list ap) {
    int rc = __real_vasprintf(out, fmt, ap);
    if (rc >= 0) track_add(*out, (size_t)rc + 1);
    return rc;
}

// ---- sleepers that XCM must never reach on a non-blocking socket
static void unexpected(const char *what) {
    Task *t = cur();
    if (t->api_depth > 0 && t->api_nonblocking) G->violation("C05.may_sleep", "%s called inside %s on a non-blocking socket", what, t->api_name);
    else if (t->api_depth > 0) G->note("library code called %s (not modelled) inside %s", what, t->api_name);
}
int __wrap_nanosleep(const struct timespec *r, struct timespec *rem) {
    if (!SIM) return __real_nanosleep(r, rem);
    unexpected("nanosleep");
    task_sleep(r->tv_sec * SEC + r->tv_nsec);
    return 0;
}
int __wrap_usleep(useconds_t u) {
    if (!SIM) return __real_usleep(u);
    unexpected("usleep");
    task_sleep((Time)u * US);
    return 0;
}
unsigned __wrap_sleep(unsigned s) {
    if (!SIM) return __real_sleep(s);
    unexpected("sleep");
    task_sleep((Time)s * SEC);
    return 0;
}
int __wrap_select(int n, fd_set *r, fd_set *w, fd_set *e, struct timeval *tv) {
    if (!SIM) return __real_select(n, r, w, e, tv);
    unexpected("select");
    errno = ENOSYS;
    return -1;
}
int __wrap_pselect(int, fd_set *, fd_set *, fd_set *, const struct timespec *, const sigset_t *) { if (SIM) unexpected("pselect"); errno = ENOSYS; return -1; }
int __wrap_ppoll(struct pollfd *f, nfds_t n, const struct timespec *ts, const sigset_t *) {
    if (SIM) return k::poll(f, n, ts ? (int)(ts->tv_sec * 1000 + ts->tv_nsec / 1000000) : -1);
    errno = ENOSYS;
    return -1;
}
int __wrap_epoll_wait(int ep, struct epoll_event *ev, int max, int tmo) {
    if (!SIM) return __real_epoll_wait(ep, ev, max, tmo);
    struct pollfd p = {ep, POLLIN, 0};
    int rc = k::poll(&p, 1, tmo);   // carries the may-sleep check
    if (rc <= 0) return rc;
    // report readiness without detail: XCM never calls this, a mutant that does only needs the wait
    if (max > 0) { ev[0].events = EPOLLIN; ev[0].data.u64 = 0; }
    return 1;
}
int __wrap_epoll_pwait(int ep, struct epoll_event *ev, int max, int tmo, const sigset_t *) { return __wrap_epoll_wait(ep, ev, max, tmo); }
ssize_t __wrap_recvfrom(int fd, void *b, size_t n, int f, struct sockaddr *, socklen_t *) { if (SIM) return k::recv(fd, b, n, f); errno = ENOSYS; return -1; }
ssize_t __wrap_recvmsg(int, struct msghdr *, int) { if (SIM) unexpected("recvmsg"); errno = ENOSYS; return -1; }
ssize_t __wrap_sendto(int fd, const void *b, size_t n, int f, const struct sockaddr *, socklen_t) { if (SIM) return k::send(fd, b, n, f); errno = ENOSYS; return -1; }
ssize_t __wrap_sendmsg(int, const struct msghdr *, int) { if (SIM) unexpected("sendmsg"); errno = ENOSYS; return -1; }
ssize_t __wrap_read(int fd, void *b, size_t n) {
    if (!SIM) return __real_read(fd, b, n);
    if (fd >= FD_BASE) return k::recv(fd, b, n, 0);
    unexpected("read");
    errno = EBADF;
    return -1;
}
ssize_t __wrap_write(int fd, const void *b, size_t n) {
    if (!SIM) return __real_write(fd, b, n);
    if (fd >= FD_BASE) return k::send(fd, b, n, 0);
    return __real_write(fd, b, n);  // console logging of the library (stderr)
}
void __wrap_perror(const char *s) {
    if (SIM) { if (G) G->logf("perror: %s: %s", s, strerror(errno)); return; }
    __real_perror(s);
}

// ---- OpenSSL object balance (as called from XCM objects)
SSL_CTX *__wrap_SSL_CTX_new(const SSL_METHOD *m) {
    SSL_CTX *c = __real_SSL_CTX_new(m);
    if (c && SIM && K) { K->ssl_ctx_balance++; G->count("probe.ssl_ctx_new"); }
    return c;
}
void __wrap_SSL_CTX_free(SSL_CTX *c) {
    if (c && G && K) K->ssl_ctx_balance--;
    __real_SSL_CTX_free(c);
}
SSL *__wrap_SSL_new(SSL_CTX *c) {
    SSL *s = __real_SSL_new(c);
    if (s && SIM && K) K->ssl_balance++;
    return s;
}
void __wrap_SSL_free(SSL *s) {
    if (s && G && K) K->ssl_balance--;
    __real_SSL_free(s);
}

}  // extern "C"
