// Small cross-module hooks of the harness.
#pragma once
#include "sim.h"
namespace xs {
extern void (*on_fatal)(const char *oracle, const char *detail);  // abort/exit/assert trap: report and leave the process
extern void (*on_sim_exit)(int code);                              // exit() inside a task that may exit (relay main)
void reset_mutex_model();

// resolver stub configuration (per run)
struct DnsAnswer {
    std::vector<std::string> ips;  // textual addresses in answer order
    Time after = 1 * MS;           // answer latency
    int mode = 0;                  // 0 answer, 1 NXDOMAIN, 2 silence
};
extern std::map<std::string, DnsAnswer> *DNS;
void dns_reset();

// libevent stub: deliver a signal to every event base of the simulated process
void sim_raise_signal(int signo);
void event_stub_reset();
}  // namespace xs
