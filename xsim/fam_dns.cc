// Family "dns" (C13): a client connects to a DNS name whose answer (1..40 addresses, any mix and order
// of IPv4/IPv6), per-address network behaviour (accepts / refuses / black hole / host or network
// unreachable, each with its latency), resolver behaviour (answer after d, NXDOMAIN, silence) and
// algorithm (single, sequential, happy_eyeballs) are generated; simulated clock, stub resolver.
// An executable reference model over the same inputs says where the client may end up connected,
// with which errno it may fail, which connect() sequences are legal and by when the outcome is due.
#include "run.h"
#include <cerrno>
#include <cmath>

namespace xs {

enum { BH_ACCEPT = 0, BH_REFUSE, BH_BLACKHOLE, BH_UNREACH_HOST, BH_UNREACH_NET };
static const char *D_TPS[] = {"tcp", "tls", "utls", "btcp", "btls"};
static const char *ALGS[] = {"", "single", "sequential", "happy_eyeballs"};

struct DCtx {
    std::string tp, stp, name;
    std::vector<std::string> answer;          // textual addresses in answer order
    std::map<std::string, int> behaviour;
    int alg = 0;                              // 0 default (single)
    bool servers_ready = false, servers_failed = false, client_done = false;
    // outcome
    bool have_outcome = false;
    bool connected = false;
    int out_errno = 0;
    Time out_time = 0, start_time = 0;
    std::string connected_to;                 // the address the accepted socket is bound to (= the one the client reached)
    std::string client_src;
    int client_task = 0;
    std::vector<std::string> accepted_local, accepted_remote;
};
static DCtx *DX = nullptr;

static std::string pool_addr(bool v6, int i) { return v6 ? strf("fd01::%x", i + 1) : strf("10.1.0.%d", i + 1); }

static void gen(uint64_t seed, const std::string &prop, Plan &plan) {
    Rng r(mix64(seed, 0xD115));
    plan.family = "dns";
    plan.prop = prop;
    plan.seed = seed;
    gen_common_knobs(r, plan, false);
    auto &p = plan.p;
    if (p["tcp_buf"] < 4096) p["tcp_buf"] = 65536;
    plan.sp["tp"] = D_TPS[r.below(5)];
    p["mode"] = r.chance(0.1) ? 1 : 0;                 // 1: xcm_server on a name
    p["alg"] = (int64_t)r.below(4);
    p["nb"] = r.chance(0.7);
    p["driver"] = (int64_t)r.below(4);                 // non-blocking: 0 finish, 1 send, 2 receive, 3 mixed
    p["sticky"] = r.chance(0.3);
    p["dns_mode"] = r.chance(0.8) ? 0 : (r.chance(0.5) ? 1 : 2);
    static const int64_t dlat[] = {1, 5, 200, 900, 4000};
    p["dns_after_ms"] = dlat[r.below(5)];
    p["dns_timeout_ds"] = r.chance(0.4) ? (int64_t)r.range(3, 30) : 0;   // tenths of a second, 0 = default (10 s)
    p["ctimeout_ds"] = r.chance(0.5) ? (int64_t)r.range(2, 40) : 0;      // tcp.connect_timeout, 0 = default (3 s)
    p["local_addr"] = r.chance(0.3) ? (r.chance(0.7) ? 1 : 2) : 0;      // 1: address with port 0, 2: address with a fixed port
    if (p["local_addr"] && r.chance(0.3)) p["local_addr"] = r.chance(0.5) ? 3 : 4;   // 3: not an address of this host (EADDRNOTAVAIL), 4: address and port in use (EADDRINUSE)
    if (p["local_addr"] == 1 && r.chance(0.3)) p["local_addr"] = 5;                  // 5: a host name (of this host, 1-3 addresses) as the local address
    p["own_nips"] = (int64_t)r.range(1, 3);                                          // how many addresses this host's own name has (local address by name, xcm_server on a name)
    int n = r.chance(0.85) ? (int)r.range(1, 6) : (int)r.range(7, 40);
    int fam_bias = (int)r.below(3);   // 0 mixed, 1 mostly v4, 2 mostly v6
    for (int i = 0; i < n; i++) {
        bool v6 = fam_bias == 0 ? r.chance(0.5) : fam_bias == 1 ? r.chance(0.15) : r.chance(0.85);
        if (p["local_addr"]) v6 = false;   // the configured source is an IPv4 address: only IPv4 destinations can be reached from it
        int idx = (int)r.below(9);
        static const int beh[] = {BH_ACCEPT, BH_ACCEPT, BH_REFUSE, BH_REFUSE, BH_BLACKHOLE, BH_UNREACH_HOST, BH_UNREACH_NET, BH_REFUSE};
        int b = beh[r.below(8)];
        if (n > 8 && b == BH_BLACKHOLE && r.chance(0.7)) b = BH_REFUSE;   // long lists: keep the simulated run short
        static const int64_t lat[] = {20, 300, 2000, 30000, 150000};
        plan.ops.push_back(Op{0, "addr", {(int64_t)v6, idx, b, lat[r.below(5)]}, "", {}});
    }
    p["step_budget"] = 800000;
}

static int errno_of(int b) { return b == BH_REFUSE ? ECONNREFUSED : b == BH_BLACKHOLE ? ETIMEDOUT : b == BH_UNREACH_HOST ? EHOSTUNREACH : b == BH_UNREACH_NET ? ENETUNREACH : 0; }

static void acceptor_task(const Plan *pl) {
    std::vector<XSock *> srvs, conns;
    std::vector<bool> greeted;
    for (int v6 = 0; v6 < 2; v6++) {
        struct xcm_attr_map *m = xcm_attr_map_create();
        if (DX->stp == "btcp" || DX->stp == "btls") xcm_attr_map_add_str(m, "xcm.service", "bytestream");
        XSock *s = x_server(strf("%s:%s:7300", DX->stp.c_str(), v6 ? "[*]" : "*"), m, true, v6 ? "srv6" : "srv4");
        xcm_attr_map_destroy(m);
        if (!s->s) { G->violation("HARNESS.server", "dns family: server %d failed: %s", v6, strerror(errno)); DX->servers_failed = true; return; }
        srvs.push_back(s);
    }
    DX->servers_ready = true;
    uint8_t buf[64];
    while (!DX->client_done && !G->stopping) {
        std::vector<struct pollfd> pf;
        for (auto *s : srvs) { x_await(s, XCM_SO_ACCEPTABLE); pf.push_back({x_fd(s), POLLIN, 0}); }
        for (auto *c : conns) if (!c->closed) { x_await(c, XCM_SO_RECEIVABLE); pf.push_back({x_fd(c), POLLIN, 0}); }
        int rc = k::poll(pf.data(), pf.size(), 50);   // also wakes up to notice the end of the client's attempt
        if (rc < 0) continue;
        for (auto *s : srvs) {
            XSock *c = x_accept(s, nullptr, strf("acc%zu", conns.size()));
            if (!c) continue;
            conns.push_back(c);
            if (auto t = std::dynamic_pointer_cast<TcpSock>(x_kernel_conn(c))) { DX->accepted_local.push_back(t->local.ipstr()); DX->accepted_remote.push_back(t->remote.ipstr()); }
            greeted.push_back(false);
        }
        for (size_t i = 0; i < conns.size(); i++) {
            XSock *c = conns[i];
            if (c->closed) continue;
            x_finish(c);
            if (!greeted[i] && x_send(c, "hello", 5) >= 0) greeted[i] = true;
            x_receive(c, buf, sizeof(buf));
        }
    }
    for (auto *c : conns) x_close(c);
    for (auto *s : srvs) x_close(s);
    (void)pl;
}

static void record(bool ok, int e) {
    if (DX->have_outcome) return;
    DX->have_outcome = true;
    DX->connected = ok;
    DX->out_errno = e;
    DX->out_time = G->now;
}

static void client_task(const Plan *pl) {
    block_until([] { return DX->servers_ready || DX->servers_failed; }, -1, "wait for servers");
    if (DX->servers_failed || G->stopping) { DX->client_done = true; return; }
    DX->client_task = cur()->id;
    struct xcm_attr_map *m = xcm_attr_map_create();
    if (DX->tp == "btcp" || DX->tp == "btls") xcm_attr_map_add_str(m, "xcm.service", "bytestream");
    if (DX->alg) xcm_attr_map_add_str(m, "dns.algorithm", ALGS[DX->alg]);
    if (pl->P("dns_timeout_ds")) xcm_attr_map_add_double(m, "dns.timeout", pl->P("dns_timeout_ds") / 10.0);
    if (pl->P("ctimeout_ds")) xcm_attr_map_add_double(m, "tcp.connect_timeout", pl->P("ctimeout_ds") / 10.0);
    int la = (int)pl->P("local_addr");
    if (la == 5) xcm_attr_map_add_str(m, "xcm.local_addr", strf("%s:own.example:0", DX->tp.c_str()).c_str());
    else if (la) xcm_attr_map_add_str(m, "xcm.local_addr", la == 3 ? strf("%s:10.9.9.9:0", DX->tp.c_str()).c_str() : strf("%s:10.0.0.1:%d", DX->tp.c_str(), la == 2 ? 7555 : la == 4 ? 7300 : 0).c_str());
    bool nb = pl->P("nb") != 0;
    bool got_greeting = false;
    DX->start_time = G->now;
    XSock *x = x_connect(strf("%s:%s:7300", DX->tp.c_str(), DX->name.c_str()), m, nb, "cli");
    xcm_attr_map_destroy(m);
    if (!x->s) { record(false, errno); DX->client_done = true; return; }
    if (!nb) record(true, 0);
    else {
        // the documented event loop, driven by one kind of call (or a seeded mix): the outcome must surface through it
        int driver = (int)pl->P("driver");
        bool sticky = pl->P("sticky") != 0;
        int last_cond = -1;
        uint8_t buf[64];
        bool sent = false;
        int it = 0;
        for (; it < 20000 && !G->stopping && !DX->have_outcome; it++) {
            int d = driver == 3 ? (int)G->r_app.below(3) : driver;
            int rc, cond;
            if (d == 0) { rc = x_finish(x); cond = 0; if (rc == 0) { record(true, 0); break; } }
            else if (d == 1) {
                rc = sent ? x_finish(x) : x_send(x, "hi!", 3);
                cond = sent ? 0 : XCM_SO_SENDABLE;
                if (rc >= 0 && !sent) { sent = true; continue; }
                if (rc == 0 && sent) { record(true, 0); break; }
            } else { rc = x_receive(x, buf, sizeof(buf)); cond = XCM_SO_RECEIVABLE; if (rc > 0) { got_greeting = true; record(true, 0); break; } if (rc == 0) { record(false, EPIPE); break; } }
            if (errno != EAGAIN) { record(false, errno); break; }
            if (!sticky || last_cond != cond) x_await(x, cond);
            last_cond = cond;
            if (!x_wait(x)) break;
        }
        if (it >= 20000 && !DX->have_outcome)
            G->violation("C13.spin", "the event loop (driver %d: %s) was woken 20000 times without the connection attempt producing an outcome: the descriptor stays readable while the call keeps reporting EAGAIN",
                         driver, driver == 0 ? "xcm_finish only" : driver == 1 ? "xcm_send then xcm_finish" : driver == 2 ? "xcm_receive only" : "mixed");
    }
    if (DX->connected && !got_greeting) {
        // let the greeting arrive so that the listener side's record of the connection is complete
        uint8_t buf[64];
        for (int i = 0; i < 2000 && !G->stopping; i++) {
            int rc = x_receive(x, buf, sizeof(buf));
            if (rc != -1 || errno != EAGAIN) break;
            if (x->nonblocking) { x_await(x, XCM_SO_RECEIVABLE); if (!x_wait(x)) break; }
        }
    }
    if (DX->connected) if (auto t = std::dynamic_pointer_cast<TcpSock>(x_kernel_conn(x))) { DX->connected_to = t->remote.ipstr(); DX->client_src = t->local.str(); }
    x_close(x);
    DX->client_done = true;
}

static void server_on_name_task(const Plan *pl) {
    // xcm_server on a name: an unresolvable or silent name must give NULL/ENOENT, not a hang or a spin
    Time t0 = G->now;
    struct xcm_attr_map *m = xcm_attr_map_create();
    if (DX->stp == "btcp" || DX->stp == "btls") xcm_attr_map_add_str(m, "xcm.service", "bytestream");
    XSock *s = x_server(strf("%s:%s:7400", DX->stp.c_str(), DX->name.c_str()), m, pl->P("nb") != 0, "nsrv");
    xcm_attr_map_destroy(m);
    int e = errno;
    int mode = (int)pl->P("dns_mode");
    bool resolvable = mode == 0 && !DX->answer.empty();
    if (s->s) {
        if (!resolvable) G->violation("C13.server_on_unresolvable", "xcm_server on a name whose resolution %s returned a socket", mode == 1 ? "fails" : "never answers");
        x_close(s);
    } else {
        if (!resolvable && e != ENOENT) G->violation("C13.server_errno", "xcm_server on an unresolvable name failed with %s, expected ENOENT", strerror(e));
        if (resolvable && e == ENOENT && pl->P("dns_after_ms") < 1000) G->violation("C13.server_errno", "xcm_server on a resolvable name failed with ENOENT");
    }
    G->stat["probe.server_on_name_ms"] = (G->now - t0) / MS;
    DX->client_done = true;
}

static void setup(const Plan &plan) {
    delete DX;
    DX = new DCtx();
    DX->tp = plan.S("tp", "tcp");
    DX->stp = DX->tp == "utls" ? "tls" : DX->tp;
    DX->name = "svc.example";
    DX->alg = (int)plan.P("alg");
    install_basic_tls_files("/cert");
    for (auto &op : plan.ops) {
        if (op.kind != "addr") continue;
        std::string a = pool_addr(op.arg(0) != 0, (int)op.arg(1));
        if (!DX->behaviour.count(a)) {
            int b = (int)op.arg(2);
            DX->behaviour[a] = b;
            HostKind hk = b == BH_ACCEPT ? HostKind::LOCAL : b == BH_REFUSE ? HostKind::REFUSE : b == BH_BLACKHOLE ? HostKind::BLACKHOLE : b == BH_UNREACH_HOST ? HostKind::UNREACH_HOST : HostKind::UNREACH_NET;
            K->hosts[a] = Host{hk, op.arg(3) * US};
        }
        DX->answer.push_back(a);
    }
    DnsAnswer da;
    da.ips = DX->answer;
    da.after = plan.P("dns_after_ms", 1) * MS;
    da.mode = (int)plan.P("dns_mode");
    (*DNS)[DX->name] = da;
    // this host's own name: 10.0.0.1 first, then further addresses of the host
    static const char *own[] = {"10.0.0.1", "10.0.0.2", "127.0.0.1"};
    int own_n = (int)std::max<int64_t>(1, std::min<int64_t>(3, plan.P("own_nips", 1)));
    DnsAnswer oa;
    oa.ips.assign(own, own + own_n);
    oa.after = 1 * MS;
    oa.mode = 0;
    (*DNS)["own.example"] = oa;
    const Plan *pl = &G->plan;
    if (plan.P("mode") == 1) {
        // for the server case the name resolves to a local address (when it resolves at all)
        DnsAnswer sa = da;
        sa.ips.assign(own, own + own_n);
        (*DNS)[DX->name] = sa;
        DX->answer = sa.ips;
        G->spawn("app", [pl] { server_on_name_task(pl); }, 1, 0);
        return;
    }
    G->spawn("acceptor", [pl] { acceptor_task(pl); }, 1, 0);
    G->spawn("client", [pl] { client_task(pl); }, 1, DX->tp == "utls" ? 1 : 0);
}

static std::string join(const std::vector<std::string> &v) { std::string s; for (auto &x : v) s += (s.empty() ? "" : ",") + x; return s; }

static void finalize(const Plan &plan, EndReason r) {
    g_run_nontrivial = true;
    if (r == EndReason::QUIESCENT) { G->violation("C13.hang", "global quiescence: the connection attempt (or xcm_server on a name) never produced an outcome"); return; }
    if (r == EndReason::BUDGET) { G->violation("C13.spin", "step budget exhausted (%llu steps, %lld ms simulated): %s spins instead of waiting", (unsigned long long)G->steps, (long long)(G->now / MS), plan.P("mode") == 1 ? "xcm_server on a name" : "the connection attempt"); return; }
    if (plan.P("mode") == 1 || !DX->have_outcome) return;
    // ---------------- reference model
    double dns_timeout = plan.P("dns_timeout_ds") ? plan.P("dns_timeout_ds") / 10.0 : 10.0;
    double ctimeout = plan.P("ctimeout_ds") ? plan.P("ctimeout_ds") / 10.0 : 3.0;
    int dmode = (int)plan.P("dns_mode");
    double dns_after = plan.P("dns_after_ms") / 1000.0;
    if (dmode == 0 && std::fabs(dns_after - dns_timeout) < 0.05) return;   // answer and deadline coincide: either outcome is legitimate
    bool resolved = dmode == 0 && dns_after < dns_timeout && !DX->answer.empty();
    double t_dns = dmode == 2 ? dns_timeout : std::min(dns_after, dns_timeout);
    std::vector<std::string> L(DX->answer.begin(), DX->answer.begin() + std::min<size_t>(32, DX->answer.size()));
    int alg = DX->alg == 0 ? 1 : DX->alg;
    std::set<std::string> ok_peers;
    std::set<int> ok_errnos;
    std::vector<std::vector<std::string>> legal_tracks;   // per track: the addresses in the order they may be attempted
    double bound = t_dns;
    auto cost = [&](const std::string &a) {
        int b = DX->behaviour[a];
        double lat = K->hosts[a].latency / 1e9;
        return b == BH_BLACKHOLE ? std::min(ctimeout, 15.0) : b == BH_UNREACH_NET ? 0.0 : std::min(2 * lat + 0.001, ctimeout);
    };
    auto walk = [&](const std::vector<std::string> &cand) {
        std::vector<std::string> att;
        int last = ENOENT;
        bool conn = false;
        for (auto &a : cand) {
            att.push_back(a);
            bound += cost(a);
            if (DX->behaviour[a] == BH_ACCEPT) { ok_peers.insert(a); conn = true; break; }
            last = errno_of(DX->behaviour[a]);
        }
        if (!conn) ok_errnos.insert(last);
        legal_tracks.push_back(att);
        return conn;
    };
    bool model_connects = false;
    if (!resolved) ok_errnos.insert(ENOENT);
    else if (alg == 1) model_connects = walk({L[0]});
    else if (alg == 2) model_connects = walk(L);
    else {
        std::vector<std::string> v4, v6;
        for (auto &a : L) (a.find(':') == std::string::npos ? v4 : v6).push_back(a);
        bool c4 = !v4.empty() && walk(v4), c6 = !v6.empty() && walk(v6);
        model_connects = c4 || c6;
        if (model_connects) ok_errnos.clear();
        bound += 0.2;
    }
    if (resolved && (plan.P("local_addr") == 3 || plan.P("local_addr") == 4)) {
        // a source address the kernel refuses to bind: no attempt can be made from it, to whichever address
        model_connects = false;
        ok_peers.clear();
        ok_errnos.clear();
        ok_errnos.insert(plan.P("local_addr") == 3 ? EADDRNOTAVAIL : EADDRINUSE);
        for (auto &tr : legal_tracks) tr.clear();
        bound = t_dns + 0.2;
    }
    bound += 0.06 + 0.002 * (double)L.size();   // scheduling quanta, the acceptor's 50 ms tick, the TLS handshake on top of TCP
    if (DX->tp == "tls" || DX->tp == "btls" || DX->tp == "utls") bound += 0.5;
    double took = (DX->out_time - DX->start_time) / 1e9;
    std::string ctx = strf("[%s, algorithm %s, answer %s, resolver %s after %.3f s (dns.timeout %.1f), tcp.connect_timeout %.1f]", DX->tp.c_str(), ALGS[alg], join(L).c_str(),
                           dmode == 0 ? "answers" : dmode == 1 ? "NXDOMAIN" : "silent", dns_after, dns_timeout, ctimeout);
    // a fixed local port cannot be bound twice on Linux: when the source is pinned the model stops at one attempt per family
    // (this is what the property calls 'a configured xcm.local_addr is the source of whichever attempt succeeds' - see DESIGN.md)
    if (DX->connected) {
        if (!model_connects)
            G->violation("C13.connected_against_model", "the client reports a connection (to %s) although no admissible address accepts %s", DX->connected_to.c_str(), ctx.c_str());
        else if (!DX->connected_to.empty() && !ok_peers.count(DX->connected_to))
            G->violation("C13.wrong_address", "connected to %s; the algorithm admits only %s %s", DX->connected_to.c_str(), join(std::vector<std::string>(ok_peers.begin(), ok_peers.end())).c_str(), ctx.c_str());
        if (plan.P("local_addr") && !DX->client_src.empty() && DX->client_src.compare(0, 9, "10.0.0.1:") != 0)
            G->violation("C13.local_addr", "xcm.local_addr was 10.0.0.1, the successful attempt's source is %s %s", DX->client_src.c_str(), ctx.c_str());
    } else {
        if (model_connects)
            G->violation("C13.failed_against_model", "the attempt failed with %s although %s accepts and the algorithm reaches it %s", strerror(DX->out_errno), join(std::vector<std::string>(ok_peers.begin(), ok_peers.end())).c_str(), ctx.c_str());
        else if (!ok_errnos.count(DX->out_errno))
            G->violation("C13.wrong_errno", "the attempt failed with %s; the model expects %s %s", strerror(DX->out_errno), [&] { std::string s; for (int e : ok_errnos) s += std::string(strerror(e)) + " "; return s; }().c_str(), ctx.c_str());
    }
    if (took > bound)
        G->violation("C13.too_late", "the outcome (%s) surfaced after %.3f s, the configured bounds allow %.3f s %s", DX->connected ? "connected" : strerror(DX->out_errno), took, bound, ctx.c_str());
    // the connect() calls the kernel saw: per family/track a prefix of the legal order, nothing outside the admissible list
    if (resolved) {
        std::vector<std::string> seen;
        for (auto &c : K->connect_log) if (c.first == DX->client_task) seen.push_back(c.second.ipstr());
        for (auto &tr : legal_tracks) {
            std::vector<std::string> mine;
            for (auto &s : seen) if (std::find(tr.begin(), tr.end(), s) != tr.end() || (alg != 3)) { if (alg == 3 && std::find(tr.begin(), tr.end(), s) == tr.end()) continue; mine.push_back(s); }
            if (alg == 3) { std::vector<std::string> f; bool v6t = !tr.empty() && tr[0].find(':') != std::string::npos; for (auto &s : seen) if ((s.find(':') != std::string::npos) == v6t) f.push_back(s); mine = f; }
            bool prefix = mine.size() <= tr.size() && std::equal(mine.begin(), mine.end(), tr.begin());
            if (!prefix)
                G->violation("C13.attempt_order", "connect() destinations %s are not a prefix of the legal attempt order %s %s", join(mine).c_str(), join(tr).c_str(), ctx.c_str());
        }
    } else {
        for (auto &c : K->connect_log) if (c.first == DX->client_task) { G->violation("C13.connect_without_resolution", "connect() to %s although the name did not resolve %s", c.second.str().c_str(), ctx.c_str()); break; }
    }
}

static struct Reg_dns { Reg_dns() { register_family(Family{"dns", gen, setup, finalize, nullptr, nullptr}); } } reg;

}  // namespace xs
