// libevent stub (STUB component, used by the real xcmrelay sources only): level-triggered
// EV_READ|EV_PERSIST and EV_SIGNAL on top of the simulated poll(); the dispatch order among
// simultaneously ready events is chosen by the scheduler PRNG.
#include "kernel.h"
#include "hooks.h"
#include <event.h>
#include <algorithm>

using namespace xs;

struct StubBase;
struct EvInfo { int fd; short events; event_callback_fn cb; void *arg; StubBase *base; bool added; };
struct StubBase {
    bool brk = false;
    std::vector<int> pending_signals;
    std::shared_ptr<StubFd> sigfd;
    int sigfd_no = -1;
};
static std::map<struct event *, EvInfo> *evs() { static auto *m = new std::map<struct event *, EvInfo>(); return m; }
static std::vector<StubBase *> *bases() { static auto *v = new std::vector<StubBase *>(); return v; }

namespace xs {
void sim_raise_signal(int signo) {
    for (auto *b : *bases()) { b->pending_signals.push_back(signo); if (b->sigfd) b->sigfd->mask = POLLIN; }
    if (G) G->kmut++;
}
void event_stub_reset() { evs()->clear(); bases()->clear(); }
}  // namespace xs

extern "C" {

struct event_base *event_base_new(void) {
    StubBase *b = new StubBase();
    b->sigfd = std::make_shared<StubFd>();
    b->sigfd_no = K->install(b->sigfd);
    bases()->push_back(b);
    return (struct event_base *)b;
}
void event_base_free(struct event_base *eb) {
    StubBase *b = (StubBase *)eb;
    if (!b) return;
    if (b->sigfd_no >= 0) k::close(b->sigfd_no);
    auto &v = *bases();
    v.erase(std::remove(v.begin(), v.end(), b), v.end());
    for (auto it = evs()->begin(); it != evs()->end();) { if (it->second.base == b) it = evs()->erase(it); else ++it; }
    delete b;
}
int event_assign(struct event *ev, struct event_base *eb, evutil_socket_t fd, short events, event_callback_fn cb, void *arg) {
    memset(ev, 0, sizeof(*ev));
    ev->ev_fd = fd;
    ev->ev_events = events;
    ev->ev_base = eb;
    (*evs())[ev] = EvInfo{(int)fd, events, cb, arg, (StubBase *)eb, false};
    return 0;
}
int event_add(struct event *ev, const struct timeval *) {
    auto it = evs()->find(ev);
    if (it == evs()->end()) return -1;
    it->second.added = true;
    return 0;
}
int event_del(struct event *ev) {
    auto it = evs()->find(ev);
    if (it == evs()->end()) return -1;
    it->second.added = false;
    return 0;
}
int event_base_loopbreak(struct event_base *eb) { ((StubBase *)eb)->brk = true; return 0; }

int event_base_dispatch(struct event_base *eb) {
    StubBase *b = (StubBase *)eb;
    for (;;) {
        if (b->brk) { b->brk = false; return 0; }
        // signals first
        if (!b->pending_signals.empty()) {
            std::vector<int> sigs;
            sigs.swap(b->pending_signals);
            b->sigfd->mask = 0;
            for (int s : sigs) {
                std::vector<struct event *> hit;
                for (auto &kv : *evs()) if (kv.second.base == b && kv.second.added && (kv.second.events & EV_SIGNAL) && kv.second.fd == s) hit.push_back(kv.first);
                for (auto *e : hit) { auto it = evs()->find(e); if (it != evs()->end() && it->second.added) it->second.cb(s, EV_SIGNAL, it->second.arg); }
            }
            continue;
        }
        std::vector<struct pollfd> pfds;
        std::vector<struct event *> who;
        pfds.push_back({b->sigfd_no, POLLIN, 0});
        who.push_back(nullptr);
        // deterministic registration order: by descriptor number, then address-independent sequence
        std::vector<std::pair<int, struct event *>> reg;
        for (auto &kv : *evs()) if (kv.second.base == b && kv.second.added && (kv.second.events & EV_READ)) reg.emplace_back(kv.second.fd, kv.first);
        std::sort(reg.begin(), reg.end(), [](auto &a, auto &c) { return a.first < c.first; });
        for (auto &r : reg) { pfds.push_back({r.first, POLLIN, 0}); who.push_back(r.second); }
        int rc = k::poll(pfds.data(), pfds.size(), -1);
        if (rc < 0) return -1;
        std::vector<size_t> ready;
        for (size_t i = 1; i < pfds.size(); i++) if (pfds[i].revents & (POLLIN | POLLERR | POLLHUP)) ready.push_back(i);
        // seeded dispatch order
        for (size_t i = ready.size(); i > 1; i--) std::swap(ready[i - 1], ready[G->r_sched.below(i)]);
        for (size_t i : ready) {
            if (b->brk) break;
            auto it = evs()->find(who[i]);
            if (it == evs()->end() || !it->second.added) continue;   // deleted by an earlier callback
            it->second.cb(pfds[i].fd, EV_READ, it->second.arg);
        }
    }
}

}  // extern "C"
