// xsim simulated kernel. See kernel.h and DESIGN.md 2.2 / appendix A for the semantics.
#include "kernel.h"
#include <algorithm>
#include <arpa/inet.h>
#include <cerrno>
#include <dirent.h>
#include <fcntl.h>
#include <netinet/tcp.h>
#include <sys/epoll.h>
#include <sys/eventfd.h>
#include <sys/timerfd.h>
#include <sys/un.h>
#include <time.h>

namespace xs {

Kernel *K = nullptr;

static const Time EPOCH0 = 1790000000LL * SEC;  // simulated wall clock at now == 0

// call ids for the trace hash
enum CallId { C_SOCKET = 1, C_BIND, C_LISTEN, C_CONNECT, C_ACCEPT, C_SEND, C_RECV, C_CLOSE, C_GSN, C_GPN, C_GSO, C_SSO,
              C_FCNTL, C_POLL, C_EPC, C_EPCTL, C_EVFD, C_TFDC, C_TFDS, C_CLK, C_STAT, C_FOPEN, C_UNLINK, C_OPENDIR };

#define KRET(callid, val)                                 \
    do {                                                  \
        int64_t _v = (val);                               \
        G->trace(callid, _v < 0 ? -errno : (_v > 0 ? 1 : 0)); \
        return _v;                                        \
    } while (0)
static void note_eagain(int callid);
#define KERR(callid, e)      \
    do {                     \
        if ((e) == EAGAIN) note_eagain(callid); \
        errno = (e);         \
        G->trace(callid, -(e)); \
        return -1;           \
    } while (0)

// ------------------------------------------------------------------ addresses
std::string Addr::ipstr() const {
    char buf[INET6_ADDRSTRLEN] = "";
    if (family == AF_INET) inet_ntop(AF_INET, ip, buf, sizeof(buf));
    else if (family == AF_INET6) inet_ntop(AF_INET6, ip, buf, sizeof(buf));
    return buf;
}
std::string Addr::str() const {
    if (family == AF_UNIX) return un_unnamed ? "unix:<unnamed>" : (un_abstract ? "unix:@" + un : "unix:" + un);
    return family == AF_INET6 ? "[" + ipstr() + "]:" + std::to_string(port) : ipstr() + ":" + std::to_string(port);
}
bool Addr::is_wildcard() const {
    static const uint8_t z[16] = {};
    return memcmp(ip, z, family == AF_INET ? 4 : 16) == 0;
}
Addr Addr::from_sockaddr(const struct sockaddr *sa, socklen_t len) {
    Addr a;
    if (!sa || len < sizeof(sa_family_t)) return a;
    a.family = sa->sa_family;
    if (a.family == AF_INET && len >= sizeof(sockaddr_in)) {
        const sockaddr_in *s = (const sockaddr_in *)sa;
        memcpy(a.ip, &s->sin_addr, 4);
        a.port = ntohs(s->sin_port);
    } else if (a.family == AF_INET6 && len >= sizeof(sockaddr_in6)) {
        const sockaddr_in6 *s = (const sockaddr_in6 *)sa;
        memcpy(a.ip, &s->sin6_addr, 16);
        a.port = ntohs(s->sin6_port);
        a.scope = s->sin6_scope_id;
    } else if (a.family == AF_UNIX) {
        const sockaddr_un *s = (const sockaddr_un *)sa;
        size_t off = offsetof(sockaddr_un, sun_path);
        size_t n = len > off ? len - off : 0;
        if (n == 0) a.un_unnamed = true;
        else if (s->sun_path[0] == '\0') { a.un_unnamed = false; a.un_abstract = true; a.un.assign(s->sun_path + 1, n - 1); }
        else { a.un_unnamed = false; a.un_abstract = false; a.un.assign(s->sun_path, strnlen(s->sun_path, n)); }
    }
    return a;
}
socklen_t Addr::to_sockaddr(struct sockaddr *sa, socklen_t cap) const {
    sockaddr_storage ss;
    memset(&ss, 0, sizeof(ss));
    socklen_t full = 0;
    if (family == AF_INET) {
        sockaddr_in *s = (sockaddr_in *)&ss;
        s->sin_family = AF_INET; memcpy(&s->sin_addr, ip, 4); s->sin_port = htons(port);
        full = sizeof(sockaddr_in);
    } else if (family == AF_INET6) {
        sockaddr_in6 *s = (sockaddr_in6 *)&ss;
        s->sin6_family = AF_INET6; memcpy(&s->sin6_addr, ip, 16); s->sin6_port = htons(port); s->sin6_scope_id = scope;
        full = sizeof(sockaddr_in6);
    } else {
        sockaddr_un *s = (sockaddr_un *)&ss;
        s->sun_family = AF_UNIX;
        size_t off = offsetof(sockaddr_un, sun_path);
        if (un_unnamed) full = off;
        else if (un_abstract) { size_t n = std::min(un.size(), sizeof(s->sun_path) - 1); memcpy(s->sun_path + 1, un.data(), n); full = off + 1 + n; }
        else { size_t n = std::min(un.size(), sizeof(s->sun_path) - 1); memcpy(s->sun_path, un.data(), n); full = off + n + 1; }
    }
    if (sa && cap) memcpy(sa, &ss, std::min<size_t>(cap, full));
    return full;
}
Addr Addr::parse_ip(const std::string &text, uint16_t port) {
    Addr a;
    a.port = port;
    if (inet_pton(AF_INET, text.c_str(), a.ip) == 1) a.family = AF_INET;
    else if (inet_pton(AF_INET6, text.c_str(), a.ip) == 1) a.family = AF_INET6;
    return a;
}
Addr Addr::ip4(const char *dotted, uint16_t port) { return parse_ip(dotted, port); }

// ------------------------------------------------------------------ faults
static bool fault_hit(const char *call, Fault &out, int fd = -1) {
    Task *t = cur();
    if (!t) return false;
    int n = ++t->callcnt[call];
    if (K->record_calls) K->callrec.push_back(KCallRec{t->id, call, n, t->cur_op, fd, 0, 0});
    for (auto &f : t->armed)
        if (f.call == call && f.nth == n) { out = f; G->count("fault." + f.kind + "." + call); G->kmut++; return true; }
    return false;
}
void arm_faults(const std::vector<Fault> &f, int op_index) {
    Task *t = cur();
    if (!t) return;
    t->armed = f;
    t->callcnt.clear();
    t->cur_op = op_index;
}
void disarm_faults() {
    Task *t = cur();
    if (!t) return;
    t->armed.clear();
    t->cur_op = -1;
}
// resource-creating call: global index, optional injected failure
static int rescall_fault(const char *name) {
    int64_t idx = K->rescall_index++;
    if (K->record_calls) { Task *t = cur(); K->callrec.push_back(KCallRec{t ? t->id : 0, std::string("res:") + name, (int)idx, t ? t->cur_op : -1, -1, 0, 0}); }
    if (idx == K->fail_rescall_at) { G->count(std::string("fault.res.") + name); return K->fail_rescall_errno; }
    if (idx == K->fail_rescall_at2) { G->count(std::string("fault.res.") + name); return K->fail_rescall_errno2; }
    return 0;
}

static bool lib_ctx() { Task *t = cur(); return t && t->api_depth > 0; }
static void foreign_check(FdEnt *e, int fd, const char *what) {
    if (e && !e->lib_created && lib_ctx())
        G->violation("C08.foreign_fd", "library code performed a successful %s on descriptor %d which it did not create (inside %s)", what, fd, cur()->api_name);
}
// C08: in the forked child xcm_cleanup may free process-local resources only; a call whose effect the
// owner would see (shared open file descriptions, the file system, the wire) is a violation
static void child_check(const char *what, int fd) {
    if (K->child_mode && lib_ctx())
        G->violation("C08.cleanup_touched_owner", "xcm_cleanup in a forked child performed %s (descriptor %d): the owner's %s is altered", what, fd,
                     !strncmp(what, "epoll_ctl", 9) ? "epoll instance (shared open file description)" : !strncmp(what, "unlink", 6) ? "file" : !strncmp(what, "timerfd", 7) ? "timer (shared open file description)" : "connection");
}
// C05: one API call on a non-blocking socket that keeps retrying a system call which keeps answering EAGAIN is waiting for an
// external event just as a sleeping one is (it merely burns the processor meanwhile). No XCM call has a reason to see more than
// a handful of EAGAINs (one per descriptor it serves); the bound is far above that.
static void note_eagain(int callid) {
    Task *t = cur();
    if (!t || t->api_depth <= 0 || !t->api_nonblocking || !G) return;
    if (++t->api_eagains == 300)
        G->violation("C05.busy_wait", "inside one %s on a non-blocking socket 300 system calls were answered EAGAIN (last: call id %d): the call retries instead of returning; call chain: %s", t->api_name, callid, lib_call_chain().c_str());
}
// C05: a call that may sleep, issued inside an API call on a non-blocking XCM socket
static void maysleep_check(const char *what) {
    Task *t = cur();
    if (t && t->api_depth > 0 && t->api_nonblocking)
        G->violation("C05.may_sleep", "%s (may sleep) called inside %s on a non-blocking socket; call chain: %s", what, t->api_name, lib_call_chain().c_str());
}

// ------------------------------------------------------------------ kernel object basics
Kernel::Kernel() {
    hosts["127.0.0.1"] = Host{HostKind::LOCAL, -1};
    hosts["::1"] = Host{HostKind::LOCAL, -1};
    FsNode root; root.type = FsNode::DIR; root.ino = next_ino++; root.mode = 0755;
    fs["/"] = root;
}
FdEnt *Kernel::ent(int fd) {
    Task *t = cur();
    auto &tab = fdt[t ? t->pid : 1];
    auto i = tab.find(fd);
    return i == tab.end() ? nullptr : &i->second;
}
std::shared_ptr<KFile> Kernel::file(int fd) { FdEnt *e = ent(fd); return e ? e->f : nullptr; }
int Kernel::install(std::shared_ptr<KFile> f) {
    Task *t = cur();
    auto &tab = fdt[t ? t->pid : 1];
    int fd = FD_BASE;
    while (tab.count(fd)) fd++;
    f->id = f->id ? f->id : next_id++;
    f->open_fds++;
    FdEnt e;
    e.f = std::move(f);
    e.lib_created = lib_ctx();
    e.owner = t ? t->api_sock : nullptr;
    e.creator_task = t ? t->id : 0;
    tab[fd] = e;
    G->kmut++;
    return fd;
}
Host Kernel::host_for(const Addr &a) const {
    auto i = hosts.find(a.ipstr());
    if (i != hosts.end()) return i->second;
    if (a.family == AF_INET && a.ip[0] == 127) return Host{HostKind::LOCAL, -1};
    return Host{HostKind::UNREACH_NET, -1};
}
Time Kernel::latency_for(const Addr &a) {
    Host h = host_for(a);
    Time l = h.latency >= 0 ? h.latency : base_latency;
    if (jitter > 0) l += (Time)G->r_net.below((uint64_t)jitter + 1);
    return l;
}
int Kernel::lib_fd_count(int pid) {
    int n = 0;
    for (auto &kv : fdt[pid]) if (kv.second.lib_created) n++;
    return n;
}
std::string Kernel::fd_dump(int pid) {
    std::string s;
    static const char *kn[] = {"tcp", "unix", "epoll", "eventfd", "timerfd", "stub"};
    for (auto &kv : fdt[pid]) {
        s += strf("%d:%s%s", kv.first, kn[kv.second.f->kind], kv.second.lib_created ? "(lib)" : "(app)");
        if (auto t = std::dynamic_pointer_cast<TcpSock>(kv.second.f)) s += strf("[st%d %s->%s]", (int)t->st, t->local.str().c_str(), t->remote.str().c_str());
        s += " ";
    }
    return s;
}
bool Kernel::epoll_ready(int epfd) {
    auto e = as<EpollFile>(epfd);
    return e && (e->poll_mask() & POLLIN);
}
std::string Kernel::epoll_dump(int epfd) {
    auto e = as<EpollFile>(epfd);
    if (!e) return "<not an epoll fd>";
    std::string s;
    for (auto &kv : e->regs) {
        auto f = kv.second.f.lock();
        s += strf("fd%d(ev=0x%x,state=0x%x) ", kv.first, kv.second.events, f ? f->poll_mask() : -1);
    }
    return s;
}

// ------------------------------------------------------------------ TCP
static void tcp_schedule_death_checks(const std::shared_ptr<TcpSock> &s);

short TcpSock::poll_mask() {
    short m = 0;
    switch (st) {
    case FRESH: return POLLOUT | POLLHUP;
    case LISTEN: return acceptq.empty() ? 0 : POLLIN;
    case SYN_SENT: return 0;
    case DISCONNECTED:
        m = POLLIN | POLLOUT | POLLHUP;
        if (so_error) m |= POLLERR;
        return m;
    case EST: break;
    }
    if (dead) {
        m = POLLIN | POLLOUT | POLLHUP | POLLRDHUP;
        if (so_error) m |= POLLERR;
        return m;
    }
    if (in && (!in->rq.empty() || in->fin_delivered)) m |= POLLIN;
    if (in && in->fin_delivered) m |= POLLRDHUP;
    if (out) {
        if (out->fin_sent) m |= POLLOUT;
        else {
            size_t sp = out->space(), u = out->used();
            if (K->linux_writeable_rule ? (sp > 0 && sp * 2 >= u) : sp > 0) m |= POLLOUT;
        }
    }
    if (out && out->fin_sent && in && in->fin_delivered) m |= POLLHUP;
    return m;
}

static void tcp_kill(const std::shared_ptr<TcpSock> &s, int err) {
    if (!s || s->closed) return;
    if (s->st == TcpSock::SYN_SENT) { s->st = TcpSock::DISCONNECTED; s->so_error = err; G->kmut++; return; }
    if (s->st != TcpSock::EST || s->dead) return;
    s->dead = true;
    s->so_error = err;
    s->killed_by = err;
    if (s->out) { s->out->flight.clear(); }
    G->kmut++;
}

// RST travelling from 'from' to its peer, ordered after data already sent
static void tcp_send_rst(const std::shared_ptr<TcpSock> &from) {
    if (!from || from->rst_sent) return;
    from->rst_sent = true;
    auto p = from->peer.lock();
    if (!p || !from->out) return;
    auto pipe = from->out;
    Time at = std::max(pipe->last_deliver, G->now + K->latency_for(from->remote));
    pipe->last_deliver = at;
    std::weak_ptr<TcpSock> wp = p;
    G->after(at - G->now, [wp, pipe] {
        auto p = wp.lock();
        if (!p || p->closed || pipe->blackholed) return;
        int err = (p->in && p->in->fin_delivered) ? EPIPE : ECONNRESET;
        tcp_kill(p, err);
    });
}

void TcpSock::last_close() {
    closed = true;
    G->kmut++;
    auto self = std::static_pointer_cast<TcpSock>(shared_from_this());
    switch (st) {
    case LISTEN:
        // connections nobody accepted are reset (inet_csk_listen_stop), whatever they hold
        for (auto &c : acceptq) { c->open_fds = 0; if (c->in) c->in->rq.clear(); if (!c->dead) tcp_send_rst(c); c->dead = true; c->last_close(); }
        acceptq.clear();
        break;
    case SYN_SENT: conn_gen++; break;
    case EST:
        // the kernel keeps answering for a closed socket (reset for late data) whether or not anybody still refers to this object
        if (auto p = peer.lock()) { if (p->closed) p->closed_peer.reset(); else p->closed_peer = self; }
        closed_peer.reset();
        if (dead) break;
        if (opt(SOL_SOCKET, SO_LINGER, 0) && opt(SOL_SOCKET, 0x7f01, 0) == 0) { tcp_send_rst(self); if (in) in->rq.clear(); }   // SO_LINGER {on, 0}: abortive close
        else if (in && !in->rq.empty()) { tcp_send_rst(self); in->rq.clear(); }
        else if (out && !out->fin_sent) {
            out->fin_sent = true;
            auto pipe = out;
            Time at = std::max(pipe->last_deliver, G->now + K->latency_for(remote));
            pipe->last_deliver = at;
            G->after(at - G->now, [pipe] { if (!pipe->blackholed) { pipe->fin_delivered = true; G->kmut++; } });
        }
        break;
    default: break;
    }
}

static std::shared_ptr<TcpSock> find_listener(int netns, const Addr &dst) {
    (void)netns;
    std::shared_ptr<TcpSock> wild;
    for (auto &w : K->tcps) {
        auto s = w.lock();
        if (!s || s->closed || s->st != TcpSock::LISTEN || s->family != dst.family || s->local.port != dst.port) continue;  // IP reachability is global in the model
        if (s->local.same_ip(dst)) return s;
        if (s->local.is_wildcard()) wild = s;
    }
    return wild;
}

static void tcp_deliver(const std::shared_ptr<Pipe> &pipe, std::weak_ptr<TcpSock> wrecv, std::weak_ptr<TcpSock> wsend, size_t n) {
    if (pipe->blackholed) { pipe->held += n; return; }
    n = std::min(n, pipe->flight.size());
    auto r = wrecv.lock();
    if (!r || r->closed) {
        // data for a socket nobody holds any more: answered with RST
        pipe->flight.erase(pipe->flight.begin(), pipe->flight.begin() + n);
        if (r && !r->dead) tcp_send_rst(r);
        return;
    }
    if (r->dead) { pipe->flight.erase(pipe->flight.begin(), pipe->flight.begin() + n); return; }
    pipe->rq.insert(pipe->rq.end(), pipe->flight.begin(), pipe->flight.begin() + n);
    pipe->flight.erase(pipe->flight.begin(), pipe->flight.begin() + n);
    pipe->delivered += n;
    if (pipe->flight.empty()) pipe->oldest_unacked = -1;
    r->last_activity = G->now;
    if (auto s = wsend.lock()) s->last_activity = G->now;
    G->kmut++;
}

static void tcp_transmit(const std::shared_ptr<TcpSock> &s, const uint8_t *buf, size_t n) {
    auto pipe = s->out;
    pipe->flight.insert(pipe->flight.end(), buf, buf + n);
    if (pipe->oldest_unacked < 0) pipe->oldest_unacked = G->now;
    std::vector<size_t> segs;
    size_t left = n;
    switch (K->seg_policy) {
    case 1: if (n > 1) { segs.push_back(n / 2); left -= n / 2; } break;
    case 2: while (left > 1 && segs.size() < 12) { size_t c = 1 + G->r_net.below(left); segs.push_back(c); left -= c; } break;
    case 3: for (int i = 0; i < 4 && left > 1; i++) { segs.push_back(1); left--; } break;
    case 4: for (int i = 0; i < 24 && left > 1; i++) { size_t c = 1 + G->r_net.below(3); c = std::min(c, left - 1); segs.push_back(c); left -= c; }
            while (left > 1 && segs.size() < 40) { size_t c = 1 + G->r_net.below(left); segs.push_back(c); left -= c; }
            break;
    case 5: if (n > 5) { size_t c = 1 + G->r_net.below(5); segs.push_back(c); left -= c; } break;  // cut inside/after the header
    default: break;
    }
    if (left) segs.push_back(left);
    Time at = std::max(pipe->last_deliver, G->now + K->latency_for(s->remote));
    std::weak_ptr<TcpSock> wr = s->peer, ws = s;
    static const Time gaps[] = {0, 1 * US, 3 * US, 20 * US, 200 * US, 2 * MS};
    for (size_t i = 0; i < segs.size(); i++) {
        if (i) at += gaps[G->r_net.below(6)];
        if (K->p_delay > 0 && G->r_net.chance(K->p_delay)) { at += (Time)G->r_net.below(20 * MS); G->count("fault.delay"); }
        size_t c = segs[i];
        G->after(at - G->now, [pipe, wr, ws, c] { tcp_deliver(pipe, wr, ws, c); });
    }
    if (segs.size() > 1) G->count("probe.segmented_send");
    pipe->last_deliver = at;
}

static void tcp_complete_connect(std::weak_ptr<TcpSock> ws, uint64_t gen) {
    auto s = ws.lock();
    if (!s || s->closed || s->conn_gen != gen || s->st != TcpSock::SYN_SENT) return;
    Host h = K->host_for(s->remote);
    auto retry_or_timeout = [&]() {
        int syncnt = s->opt(IPPROTO_TCP, TCP_SYNCNT, 6);
        s->syn_tries++;
        if (s->syn_tries > syncnt) { s->st = TcpSock::DISCONNECTED; s->so_error = ETIMEDOUT; G->kmut++; return; }
        Time backoff = SEC << std::min(s->syn_tries - 1, 6);
        G->after(backoff, [ws, gen] { tcp_complete_connect(ws, gen); });
    };
    switch (h.kind) {
    case HostKind::REFUSE: s->st = TcpSock::DISCONNECTED; s->so_error = ECONNREFUSED; G->kmut++; return;
    case HostKind::UNREACH_HOST: s->st = TcpSock::DISCONNECTED; s->so_error = EHOSTUNREACH; G->kmut++; return;
    case HostKind::UNREACH_NET: s->st = TcpSock::DISCONNECTED; s->so_error = ENETUNREACH; G->kmut++; return;
    case HostKind::BLACKHOLE: G->count("probe.syn_blackholed"); retry_or_timeout(); return;
    case HostKind::LOCAL: break;
    }
    auto l = find_listener(s->netns, s->remote);
    if (!l) { s->st = TcpSock::DISCONNECTED; s->so_error = ECONNREFUSED; G->kmut++; return; }
    if ((int)l->acceptq.size() > l->backlog) { G->count("probe.backlog_full"); retry_or_timeout(); return; }
    auto c = std::make_shared<TcpSock>();
    c->id = K->next_id++;
    c->family = l->family; c->netns = l->netns;
    c->local = s->remote; c->remote = s->local;
    c->bound = true;
    c->st = TcpSock::EST;
    c->opts = l->opts;
    c->ever_connected = true;
    auto c2s = std::make_shared<Pipe>(), s2c = std::make_shared<Pipe>();
    c2s->cap = s2c->cap = K->tcp_buf;
    s->out = c2s; c->in = c2s; c->out = s2c; s->in = s2c;
    s->peer = c; c->peer = s;
    s->st = TcpSock::EST;
    s->async_connect_pending_report = s->nonblock;
    s->ever_connected = true;
    s->last_activity = c->last_activity = G->now;
    if (K->cut_dir >= 0 && K->conn_count++ == K->cut_conn) {
        auto pipe = K->cut_dir == 0 ? c2s : s2c;
        pipe->cut_at = K->cut_at;
        pipe->cut_mode = K->cut_mode;
    }
    K->tcps.push_back(c);
    l->acceptq.push_back(c);
    G->kmut++;
}

bool Kernel::conn_idle_tcp(const std::shared_ptr<TcpSock> &s) {
    if (!s || s->st != TcpSock::EST) return false;
    return s->in && s->out && s->in->used() == 0 && s->out->used() == 0;
}

void Kernel::partition(const std::shared_ptr<TcpSock> &s, bool on) {
    if (!s || !s->in || !s->out) return;
    for (auto &pipe : {s->in, s->out}) {
        pipe->blackholed = on;
        if (!on && pipe->held) {
            size_t n = pipe->held;
            pipe->held = 0;
            auto p = s->peer.lock();
            std::weak_ptr<TcpSock> wr = (pipe == s->in) ? std::weak_ptr<TcpSock>(s) : std::weak_ptr<TcpSock>(p);
            std::weak_ptr<TcpSock> wsn = (pipe == s->in) ? std::weak_ptr<TcpSock>(p) : std::weak_ptr<TcpSock>(s);
            G->after(latency_for(s->remote), [pipe, wr, wsn, n] { tcp_deliver(pipe, wr, wsn, n); });
        }
    }
    if (on) { G->count("fault.partition"); tcp_schedule_death_checks(s); if (auto p = s->peer.lock()) tcp_schedule_death_checks(p); }
    G->kmut++;
}
void Kernel::kill_peer_rst(const std::shared_ptr<TcpSock> &victim) { tcp_kill(victim, ECONNRESET); }

// keepalive / user timeout while the path is dead (partition or silent peer)
static void tcp_death_check(std::weak_ptr<TcpSock> ws) {
    auto s = ws.lock();
    if (!s || s->closed || s->dead || s->st != TcpSock::EST || !s->out || !s->out->blackholed) return;
    Time ut = (Time)s->opt(IPPROTO_TCP, TCP_USER_TIMEOUT, 0) * MS;
    bool unacked = !s->out->flight.empty() || s->out->held > 0;
    Time death = -1;
    if (unacked) {
        Time since = s->out->oldest_unacked >= 0 ? s->out->oldest_unacked : G->now;
        death = since + (ut > 0 ? ut : 900 * SEC);
    } else if (s->opt(SOL_SOCKET, SO_KEEPALIVE, 0)) {
        Time idle = (Time)s->opt(IPPROTO_TCP, TCP_KEEPIDLE, 7200) * SEC;
        Time intvl = (Time)s->opt(IPPROTO_TCP, TCP_KEEPINTVL, 75) * SEC;
        Time cnt = s->opt(IPPROTO_TCP, TCP_KEEPCNT, 9);
        Time probes = cnt * intvl;
        if (ut > 0) { Time r = ((ut + intvl - 1) / intvl) * intvl; if (r < intvl) r = intvl; probes = std::min(probes, r); }
        death = s->last_activity + idle + probes;
    }
    if (death >= 0 && G->now >= death) { G->count("fault.tcp_timeout_fired"); tcp_kill(s, ETIMEDOUT); return; }
    Time next = death >= 0 ? std::max<Time>(death - G->now, MS) : 500 * MS;
    next = std::min<Time>(next, 500 * MS);
    G->after(next, [ws] { tcp_death_check(ws); });
}
static void tcp_schedule_death_checks(const std::shared_ptr<TcpSock> &s) {
    std::weak_ptr<TcpSock> ws = s;
    G->after(MS, [ws] { tcp_death_check(ws); });
}

// Injected "the connection dies now with errno e" (explicit errno fault on send/recv):
// kept self-consistent by really killing the connection in both directions.
static void tcp_die_now(const std::shared_ptr<TcpSock> &s, int e) {
    auto p = s->peer.lock();
    s->dead = true;
    s->so_error = 0;
    if (s->out) s->out->flight.clear();
    if (p && !p->closed && !p->dead) {
        std::weak_ptr<TcpSock> wp = p;
        G->after(K->latency_for(s->remote), [wp] { if (auto p = wp.lock()) tcp_kill(p, ECONNRESET); });
    }
    (void)e;
    G->kmut++;
}

// ------------------------------------------------------------------ UNIX seqpacket
short UnixSock::poll_mask() {
    switch (st) {
    case LISTEN: return acceptq.empty() ? 0 : POLLIN;
    case CONNECTED: {
        short m = 0;
        auto p = peer.lock();
        bool pc = peer_closed || !p || p->closed;
        if (!rq.empty() || pc) m |= POLLIN;
        if (pc) m |= POLLOUT | POLLHUP | POLLRDHUP;
        else if (p->rq.size() < p->max_msgs && p->rq_bytes < p->max_bytes) m |= POLLOUT;
        if (reset_pending) m |= POLLERR;
        return m;
    }
    default: return POLLOUT | POLLHUP;
    }
}
void UnixSock::last_close() {
    closed = true;
    G->kmut++;
    if (st == LISTEN) {
        for (auto &c : acceptq) { c->open_fds = 0; c->last_close(); }
        acceptq.clear();
    } else if (st == CONNECTED) {
        auto p = peer.lock();
        if (p && !p->closed) {
            if (!rq.empty()) p->reset_pending = true;
            p->peer_closed = true;
        }
        rq.clear();
    }
    if (!local.un_unnamed && !local.un_abstract) {
        // the socket file stays (as on Linux) until unlinked; it just no longer leads anywhere
    }
}
static std::shared_ptr<UnixSock> ux_find_listener(int netns, const Addr &a, int &err) {
    err = ECONNREFUSED;
    if (a.un_abstract) {
        for (auto &w : K->uxs) {
            auto s = w.lock();
            if (s && !s->closed && s->netns == netns && !s->local.un_unnamed && s->local.un_abstract && s->local.un == a.un)
                return s->st == UnixSock::LISTEN ? s : nullptr;
        }
        return nullptr;
    }
    std::string rp;
    if (!K->resolve(a.un, true, rp)) { err = ENOENT; return nullptr; }
    FsNode &n = K->fs[rp];
    if (n.type != FsNode::SOCK) { err = ECONNREFUSED; return nullptr; }
    auto s = n.sock.lock();
    if (!s || s->closed || s->st != UnixSock::LISTEN) return nullptr;
    return s;
}

// ------------------------------------------------------------------ epoll / timerfd
short EpollFile::poll_mask() {
    for (auto &kv : regs) {
        auto f = kv.second.f.lock();
        if (!f) continue;
        short m = f->poll_mask();
        uint32_t want = kv.second.events | EPOLLERR | EPOLLHUP;
        uint32_t have = 0;
        if (m & POLLIN) have |= EPOLLIN;
        if (m & POLLOUT) have |= EPOLLOUT;
        if (m & POLLERR) have |= EPOLLERR;
        if (m & POLLHUP) have |= EPOLLHUP;
        if (m & POLLRDHUP) have |= EPOLLRDHUP;
        if (have & want) return POLLIN;
    }
    return 0;
}
void EpollFile::last_close() { regs.clear(); }
short TimerFd::poll_mask() { return armed && G->now >= expiry ? POLLIN : 0; }

// ------------------------------------------------------------------ syscalls
namespace k {

int socket(int domain, int type, int proto) {
    yield_point("socket");
    int base = type & ~(SOCK_NONBLOCK | SOCK_CLOEXEC);
    if (int e = rescall_fault("socket")) KERR(C_SOCKET, e);
    std::shared_ptr<KFile> f;
    Task *t = cur();
    if ((domain == AF_INET || domain == AF_INET6) && base == SOCK_STREAM) {
        auto s = std::make_shared<TcpSock>();
        s->family = domain; s->netns = t->netns;
        s->local.family = domain; s->remote.family = domain;
        K->tcps.push_back(s);
        f = s;
    } else if (domain == AF_UNIX && base == SOCK_SEQPACKET) {
        auto s = std::make_shared<UnixSock>();
        s->netns = t->netns;
        s->local.family = AF_UNIX;
        s->max_msgs = K->ux_max_msgs;
        K->uxs.push_back(s);
        f = s;
    } else KERR(C_SOCKET, EAFNOSUPPORT);
    f->nonblock = (type & SOCK_NONBLOCK) != 0;
    int fd = K->install(f);
    G->logf("socket(%d,%d) = %d", domain, base, fd);
    KRET(C_SOCKET, fd);
}

static bool tcp_port_conflict(TcpSock *me, const Addr &a) {
    for (auto &w : K->tcps) {
        auto s = w.lock();
        if (!s || s.get() == me || s->closed || !s->bound || s->local.port != a.port || s->family != me->family) continue;
        if (s->st == TcpSock::EST && s->in) continue;  // accepted children share the listener's port
        if (!(s->local.same_ip(a) || s->local.is_wildcard() || a.is_wildcard())) continue;
        bool reuse = s->opt(SOL_SOCKET, SO_REUSEADDR, 0) && me->opt(SOL_SOCKET, SO_REUSEADDR, 0);
        if (!reuse || s->st == TcpSock::LISTEN) return true;
    }
    return false;
}

int bind(int fd, const struct sockaddr *sa, socklen_t len) {
    yield_point("bind");
    FdEnt *e = K->ent(fd);
    if (!e) KERR(C_BIND, EBADF);
    if (int er = rescall_fault("bind")) KERR(C_BIND, er);
    if (auto s = std::dynamic_pointer_cast<TcpSock>(e->f)) {
        Addr a = Addr::from_sockaddr(sa, len);
        if (a.family != s->family) KERR(C_BIND, EAFNOSUPPORT);
        if (s->st != TcpSock::FRESH || (s->bound && s->local.port != 0)) KERR(C_BIND, EINVAL);
        if (!a.is_wildcard() && K->host_for(a).kind != HostKind::LOCAL) KERR(C_BIND, EADDRNOTAVAIL);
        if (a.port != 0 && tcp_port_conflict(s.get(), a)) KERR(C_BIND, EADDRINUSE);
        s->local = a;
        s->bound = true;
        s->addr_locked = !a.is_wildcard();
        s->port_locked = a.port != 0;
        if (a.port == 0) s->local.port = (uint16_t)K->next_port++;
        G->kmut++;
        G->logf("bind(%d, %s) = 0", fd, s->local.str().c_str());
        KRET(C_BIND, 0);
    }
    if (auto s = std::dynamic_pointer_cast<UnixSock>(e->f)) {
        Addr a = Addr::from_sockaddr(sa, len);
        if (a.family != AF_UNIX) KERR(C_BIND, EINVAL);
        if (s->st != UnixSock::FRESH) KERR(C_BIND, EINVAL);
        if (a.un_unnamed) { a.un_unnamed = false; a.un_abstract = true; a.un = strf("%05x", K->next_autobind++); }
        if (a.un_abstract) {
            for (auto &w : K->uxs) {
                auto o = w.lock();
                if (o && !o->closed && o->netns == s->netns && !o->local.un_unnamed && o->local.un_abstract && o->local.un == a.un) KERR(C_BIND, EADDRINUSE);
            }
        } else {
            std::string rp;
            if (K->resolve(a.un, false, rp)) KERR(C_BIND, EADDRINUSE);
            size_t sl = a.un.rfind('/');
            std::string dir = sl == std::string::npos ? "/" : (sl == 0 ? "/" : a.un.substr(0, sl));
            std::string rdir;
            if (!K->resolve(dir, true, rdir) || K->fs[rdir].type != FsNode::DIR) KERR(C_BIND, ENOENT);
            FsNode n; n.type = FsNode::SOCK; n.ino = K->next_ino++; n.mtime = G->now; n.mode = 0755; n.sock = s;
            K->fs[(rdir == "/" ? "" : rdir) + "/" + a.un.substr(sl == std::string::npos ? 0 : sl + 1)] = n;
        }
        s->local = a;
        s->st = UnixSock::BOUND;
        G->kmut++;
        G->logf("bind(%d, %s) = 0", fd, a.str().c_str());
        KRET(C_BIND, 0);
    }
    KERR(C_BIND, ENOTSOCK);
}

int listen(int fd, int backlog) {
    yield_point("listen");
    FdEnt *e = K->ent(fd);
    if (!e) KERR(C_LISTEN, EBADF);
    if (int er = rescall_fault("listen")) KERR(C_LISTEN, er);
    if (auto s = std::dynamic_pointer_cast<TcpSock>(e->f)) {
        if (s->st != TcpSock::FRESH && s->st != TcpSock::LISTEN) KERR(C_LISTEN, EINVAL);
        if (!s->bound) { s->bound = true; s->local.port = (uint16_t)K->next_port++; }
        if (s->st == TcpSock::FRESH && tcp_port_conflict(s.get(), s->local)) KERR(C_LISTEN, EADDRINUSE);
        s->st = TcpSock::LISTEN;
        s->backlog = std::max(backlog, 0);
        G->kmut++;
        KRET(C_LISTEN, 0);
    }
    if (auto s = std::dynamic_pointer_cast<UnixSock>(e->f)) {
        if (s->st != UnixSock::BOUND && s->st != UnixSock::LISTEN) KERR(C_LISTEN, EINVAL);
        s->st = UnixSock::LISTEN;
        s->backlog = std::max(backlog, 0);
        G->kmut++;
        KRET(C_LISTEN, 0);
    }
    KERR(C_LISTEN, ENOTSOCK);
}

int connect(int fd, const struct sockaddr *sa, socklen_t len) {
    yield_point("connect");
    FdEnt *e = K->ent(fd);
    if (!e) KERR(C_CONNECT, EBADF);
    if (auto s = std::dynamic_pointer_cast<TcpSock>(e->f)) {
        if (sa->sa_family == AF_UNSPEC) {
            s->conn_gen++;
            if (s->st == TcpSock::EST && !s->dead) { auto self = s; tcp_send_rst(self); }
            if (s->st == TcpSock::LISTEN) KERR(C_CONNECT, EINVAL);
            s->st = TcpSock::FRESH;
            s->so_error = 0; s->dead = false; s->in.reset(); s->out.reset(); s->peer.reset(); s->syn_tries = 0; s->rst_sent = false;
            if (!s->port_locked) { s->local.port = 0; if (!s->addr_locked) s->bound = false; }
            if (!s->addr_locked) memset(s->local.ip, 0, 16);
            G->kmut++;
            G->logf("connect(%d, AF_UNSPEC) = 0 (disconnect)", fd);
            KRET(C_CONNECT, 0);
        }
        Addr a = Addr::from_sockaddr(sa, len);
        if (a.family != s->family) KERR(C_CONNECT, EAFNOSUPPORT);
        if (s->st == TcpSock::SYN_SENT) KERR(C_CONNECT, EALREADY);
        if (s->st == TcpSock::EST) { if (s->async_connect_pending_report) { s->async_connect_pending_report = false; KRET(C_CONNECT, 0); } KERR(C_CONNECT, EISCONN); }
        if (s->st == TcpSock::LISTEN) KERR(C_CONNECT, EINVAL);
        if (s->st == TcpSock::DISCONNECTED) { if (s->so_error) { int er = s->so_error; s->so_error = 0; KERR(C_CONNECT, er); } s->st = TcpSock::FRESH; }
        if (int er = rescall_fault("connect")) KERR(C_CONNECT, er);
        K->connect_log.emplace_back(cur() ? cur()->id : 0, a);
        Host h = K->host_for(a);
        if (h.kind == HostKind::UNREACH_NET) { G->logf("connect(%d, %s) = ENETUNREACH", fd, a.str().c_str()); KERR(C_CONNECT, ENETUNREACH); }
        if (!s->bound || s->local.is_wildcard()) {
            Addr l = s->local;
            l.family = s->family;
            if (s->family == AF_INET) { if (a.ip[0] == 127) inet_pton(AF_INET, "127.0.0.1", l.ip); else inet_pton(AF_INET, "10.0.0.1", l.ip); }
            else { static const uint8_t lo6[16] = {0,0,0,0,0,0,0,0,0,0,0,0,0,0,0,1}; if (memcmp(a.ip, lo6, 16) == 0) memcpy(l.ip, lo6, 16); else inet_pton(AF_INET6, "fd00::1", l.ip); }
            uint16_t port = s->local.port;
            s->local = l;
            s->local.port = port;
        }
        if (s->local.port == 0) s->local.port = (uint16_t)K->next_port++;
        s->bound = true;
        s->remote = a;
        s->st = TcpSock::SYN_SENT;
        s->syn_tries = 0;
        uint64_t gen = ++s->conn_gen;
        std::weak_ptr<TcpSock> ws = s;
        G->after(K->latency_for(a), [ws, gen] { tcp_complete_connect(ws, gen); });
        G->kmut++;
        G->logf("connect(%d, %s) from %s in progress", fd, a.str().c_str(), s->local.str().c_str());
        if (s->nonblock) KERR(C_CONNECT, EINPROGRESS);
        maysleep_check("connect() on a blocking descriptor");
        block_until([s] { return s->st != TcpSock::SYN_SENT; }, -1, "connect");
        if (s->st == TcpSock::EST) KRET(C_CONNECT, 0);
        if (s->st == TcpSock::SYN_SENT) KERR(C_CONNECT, EINTR);
        int er = s->so_error ? s->so_error : ECONNREFUSED;
        s->so_error = 0;
        KERR(C_CONNECT, er);
    }
    if (auto s = std::dynamic_pointer_cast<UnixSock>(e->f)) {
        Addr a = Addr::from_sockaddr(sa, len);
        if (a.family != AF_UNIX) KERR(C_CONNECT, EINVAL);
        if (s->st == UnixSock::CONNECTED) KERR(C_CONNECT, EISCONN);
        if (int er = rescall_fault("connect")) KERR(C_CONNECT, er);
        int err = ECONNREFUSED;
        auto l = ux_find_listener(s->netns, a, err);
        if (!l) { G->logf("connect(%d, %s) = %s", fd, a.str().c_str(), strerror(err)); KERR(C_CONNECT, err); }
        if ((int)l->acceptq.size() > l->backlog) {
            G->count("probe.ux_backlog_full");
            if (s->nonblock) KERR(C_CONNECT, EAGAIN);
            maysleep_check("connect() on a blocking descriptor");
            std::weak_ptr<UnixSock> wl = l;
            Time dl = s->sndtimeo > 0 ? G->now + s->sndtimeo : -1;
            bool ok = block_until([wl] { auto l = wl.lock(); return !l || l->closed || (int)l->acceptq.size() <= l->backlog; }, dl, "ux connect");
            if (!ok) KERR(C_CONNECT, G->stopping ? EINTR : EAGAIN);
            if (l->closed) KERR(C_CONNECT, ECONNREFUSED);
        }
        if (s->passcred && s->local.un_unnamed) { s->local.un_unnamed = false; s->local.un_abstract = true; s->local.un = strf("%05x", K->next_autobind++); }
        auto c = std::make_shared<UnixSock>();
        c->id = K->next_id++;
        c->netns = l->netns;
        c->local = l->local;
        c->st = UnixSock::CONNECTED;
        c->max_msgs = K->ux_max_msgs;
        c->passcred = l->passcred;
        c->peer = s; s->peer = c;
        s->st = UnixSock::CONNECTED;
        K->uxs.push_back(c);
        l->acceptq.push_back(c);
        G->kmut++;
        G->logf("connect(%d, %s) = 0", fd, a.str().c_str());
        KRET(C_CONNECT, 0);
    }
    KERR(C_CONNECT, ENOTSOCK);
}

int accept4(int fd, struct sockaddr *sa, socklen_t *len, int flags) {
    yield_point("accept4");
    FdEnt *e = K->ent(fd);
    if (!e) KERR(C_ACCEPT, EBADF);
    auto ts = std::dynamic_pointer_cast<TcpSock>(e->f);
    auto us = std::dynamic_pointer_cast<UnixSock>(e->f);
    if (!ts && !us) KERR(C_ACCEPT, ENOTSOCK);
    if ((ts && ts->st != TcpSock::LISTEN) || (us && us->st != UnixSock::LISTEN)) KERR(C_ACCEPT, EINVAL);
    auto empty = [&] { return ts ? ts->acceptq.empty() : us->acceptq.empty(); };
    if (empty()) {
        if (e->f->nonblock) KERR(C_ACCEPT, EAGAIN);
        maysleep_check("accept() on a blocking descriptor");
        auto f = e->f;
        block_until([ts, us] { return ts ? !ts->acceptq.empty() : !us->acceptq.empty(); }, -1, "accept");
        if (empty()) KERR(C_ACCEPT, EINTR);
    }
    if (int er = rescall_fault("accept4")) KERR(C_ACCEPT, er);
    std::shared_ptr<KFile> c;
    Addr peer;
    if (ts) { auto ch = ts->acceptq.front(); ts->acceptq.pop_front(); peer = ch->remote; c = ch; }
    else { auto ch = us->acceptq.front(); us->acceptq.pop_front(); if (auto p = ch->peer.lock()) peer = p->local; peer.family = AF_UNIX; c = ch; }
    c->nonblock = (flags & SOCK_NONBLOCK) != 0;
    int nfd = K->install(c);
    if (sa && len) { socklen_t full = peer.to_sockaddr(sa, *len); *len = full; }
    G->logf("accept4(%d) = %d", fd, nfd);
    KRET(C_ACCEPT, nfd);
}

static ssize_t send_impl(int fd, const void *buf, size_t len, int flags) {
    yield_point("send");
    FdEnt *e = K->ent(fd);
    if (!e) KERR(C_SEND, EBADF);
    // unwinding at the end of a run: connections are torn down so that library-internal wait loops
    // (e.g. the uninterruptible flush wait of a blocking send) come to an end
    if (G->unwinding) KERR(C_SEND, ECONNRESET);
    Fault f;
    bool hit = fault_hit("send", f, fd);
    size_t ri = K->record_calls ? K->callrec.size() - 1 : 0;
    if (auto s = std::dynamic_pointer_cast<TcpSock>(e->f)) {
        if (s->st == TcpSock::SYN_SENT) { if (s->nonblock) KERR(C_SEND, EAGAIN); }
        if (s->st != TcpSock::EST) {
            if (s->so_error) { int er = s->so_error; s->so_error = 0; KERR(C_SEND, er); }
            KERR(C_SEND, EPIPE);
        }
        if (hit && f.kind == "errno" && !s->dead) {
            if (f.arg == EAGAIN) { G->logf("send(%d,%zu) = EAGAIN [fault]", fd, len); KERR(C_SEND, EAGAIN); }
            tcp_die_now(s, (int)f.arg);
            G->count("fault.applied_errno");
            if (lib_ctx() && !cur()->api_fault_errno) { cur()->api_fault_errno = (int)f.arg; cur()->api_fault_on_write = true; }
            G->logf("send(%d,%zu) = %s [fault]", fd, len, strerror((int)f.arg));
            KERR(C_SEND, (int)f.arg);
        }
        if (s->so_error) { int er = s->so_error; s->so_error = 0; G->logf("send(%d,%zu) = %s", fd, len, strerror(er)); KERR(C_SEND, er); }
        if (s->dead || s->out->fin_sent) { G->logf("send(%d,%zu) = EPIPE", fd, len); KERR(C_SEND, EPIPE); }
        if (len == 0) KRET(C_SEND, 0);
        if (!s->nonblock) maysleep_check("send() on a blocking descriptor");
        if (K->p_eagain_send > 0 && s->nonblock && s->out->space() > 0 && G->r_fault.chance(K->p_eagain_send)) {
            G->count("fault.eagain_send"); G->kmut++;
            G->logf("send(%d,%zu) = EAGAIN [ambient]", fd, len);
            KERR(C_SEND, EAGAIN);
        }
        if (s->out->space() == 0) {
            G->count("probe.sndbuf_full");
            if (s->nonblock) { G->logf("send(%d,%zu) = EAGAIN", fd, len); KERR(C_SEND, EAGAIN); }
            block_until([s] { return s->dead || s->out->space() > 0; }, -1, "send");
            if (s->dead || s->out->space() == 0) KERR(C_SEND, s->dead ? EPIPE : EINTR);
        }
        size_t n = std::min(len, s->out->space());
        if (hit && f.kind == "short" && f.arg > 0) { n = std::min<size_t>(n, (size_t)f.arg); }
        else if (n > 1 && K->p_short_write > 0 && G->r_fault.chance(K->p_short_write)) { n = 1 + G->r_fault.below(n - 1); G->count("fault.short_write"); }
        auto pipe = s->out;
        if (pipe->cut_at >= 0 && !pipe->cut_done && pipe->accepted + n >= (uint64_t)pipe->cut_at) {
            // the sender "dies" after wire byte cut_at of this direction
            size_t keep = (size_t)((uint64_t)pipe->cut_at - pipe->accepted);
            if (keep) tcp_transmit(s, (const uint8_t *)buf, keep);
            pipe->accepted += keep;
            pipe->cut_done = true;
            G->count("fault.cut");
            auto p = s->peer.lock();
            if (pipe->cut_mode == 1) {   // orderly FIN after the bytes
                pipe->fin_sent = true;
                Time at = std::max(pipe->last_deliver, G->now + K->latency_for(s->remote));
                pipe->last_deliver = at;
                G->after(at - G->now, [pipe] { pipe->fin_delivered = true; G->kmut++; });
                if (s->in) s->in->blackholed = true;
                if (p) tcp_schedule_death_checks(p);
            } else if (pipe->cut_mode == 2) {  // RST after the bytes
                tcp_send_rst(s);
                s->dead = true;
            } else {                    // silence
                if (p) K->partition(p, true);
            }
            G->logf("send(%d,%zu) cut after %zu bytes (mode %d)", fd, len, keep, pipe->cut_mode);
            KRET(C_SEND, (ssize_t)n);   // the dying sender believes it wrote them
        }
        tcp_transmit(s, (const uint8_t *)buf, n);
        pipe->accepted += n;
        s->last_activity = G->now;
        G->kmut++;
        if (n < len) G->count("probe.partial_send");
        G->logf("send(%d,%zu) = %zu", fd, len, n);
        if (K->record_calls && ri < K->callrec.size()) K->callrec[ri].res = (int64_t)n;
        KRET(C_SEND, (ssize_t)n);
    }
    if (auto s = std::dynamic_pointer_cast<UnixSock>(e->f)) {
        if (s->st != UnixSock::CONNECTED) KERR(C_SEND, ENOTCONN);
        auto p = s->peer.lock();
        if (hit && f.kind == "errno") { G->logf("send(%d,%zu) = %s [fault]", fd, len, strerror((int)f.arg)); KERR(C_SEND, (int)f.arg); }
        if (s->peer_closed || !p || p->closed) { G->logf("send(%d,%zu) = EPIPE", fd, len); KERR(C_SEND, EPIPE); }
        if (len > 212992 - 32) KERR(C_SEND, EMSGSIZE);
        if (!s->nonblock) maysleep_check("send() on a blocking descriptor");
        if (K->p_eagain_send > 0 && s->nonblock && G->r_fault.chance(K->p_eagain_send)) { G->count("fault.eagain_send"); G->kmut++; KERR(C_SEND, EAGAIN); }
        auto full = [p] { return p->rq.size() >= p->max_msgs || p->rq_bytes >= p->max_bytes; };
        if (full()) {
            G->count("probe.sndbuf_full");
            if (s->nonblock) { G->logf("send(%d,%zu) = EAGAIN", fd, len); KERR(C_SEND, EAGAIN); }
            maysleep_check("send() on a blocking descriptor");
            Time dl = s->sndtimeo > 0 ? G->now + s->sndtimeo : -1;
            bool ok = block_until([p, s] { return p->closed || s->peer_closed || !(p->rq.size() >= p->max_msgs || p->rq_bytes >= p->max_bytes); }, dl, "ux send");
            if (!ok) KERR(C_SEND, G->stopping ? EINTR : EAGAIN);
            if (p->closed || s->peer_closed) KERR(C_SEND, EPIPE);
        }
        p->rq.emplace_back((const char *)buf, len);
        p->rq_bytes += len;
        p->msgs_in++;
        s->msgs_out++;
        G->kmut++;
        G->logf("send(%d,%zu) = %zu", fd, len, len);
        KRET(C_SEND, (ssize_t)len);
    }
    (void)flags;
    KERR(C_SEND, ENOTSOCK);
}

ssize_t send(int fd, const void *buf, size_t len, int flags) {
    ssize_t rc = send_impl(fd, buf, len, flags);
    if (rc > 0) { int e = errno; child_check("send", fd); errno = e; }
    Task *t = cur();
    if (t && t->api_depth > 0 && !strcmp(t->api_name, "xcm_close") && (rc < 0 || (size_t)rc < len)) { int e = errno; t->close_send_truncated = true; errno = e; }
    return rc;
}

ssize_t recv(int fd, void *buf, size_t len, int flags) {
    yield_point("recv");
    FdEnt *e = K->ent(fd);
    if (!e) KERR(C_RECV, EBADF);
    if (G->unwinding) KERR(C_RECV, ECONNRESET);
    Fault f;
    bool hit = fault_hit("recv", f, fd);
    if (auto s = std::dynamic_pointer_cast<TcpSock>(e->f)) {
        if (s->st == TcpSock::FRESH || s->st == TcpSock::LISTEN) KERR(C_RECV, ENOTCONN);
        if (s->st == TcpSock::SYN_SENT) KERR(C_RECV, EAGAIN);
        if (s->st == TcpSock::DISCONNECTED) { if (s->so_error) { int er = s->so_error; s->so_error = 0; KERR(C_RECV, er); } KRET(C_RECV, 0); }
        if (hit && f.kind == "errno" && !s->dead) {
            if (f.arg == EAGAIN) { G->logf("recv(%d,%zu) = EAGAIN [fault]", fd, len); KERR(C_RECV, EAGAIN); }
            tcp_die_now(s, (int)f.arg);
            G->count("fault.applied_errno");
            if (lib_ctx() && !cur()->api_fault_errno) { cur()->api_fault_errno = (int)f.arg; cur()->api_fault_on_write = false; }
            s->in->rq.clear();
            G->logf("recv(%d,%zu) = %s [fault]", fd, len, strerror((int)f.arg));
            KERR(C_RECV, (int)f.arg);
        }
        for (;;) {
            auto &rq = s->in->rq;
            if (!rq.empty()) {
                if (K->p_eagain_recv > 0 && s->nonblock && G->r_fault.chance(K->p_eagain_recv)) { G->count("fault.eagain_recv"); G->kmut++; G->logf("recv(%d,%zu) = EAGAIN [ambient]", fd, len); KERR(C_RECV, EAGAIN); }
                size_t n = std::min(len, rq.size());
                if (hit && f.kind == "short" && f.arg > 0) n = std::min<size_t>(n, (size_t)f.arg);
                else if (n > 1 && K->p_short_read > 0 && G->r_fault.chance(K->p_short_read)) { n = 1 + G->r_fault.below(n - 1); G->count("fault.short_read"); }
                std::copy(rq.begin(), rq.begin() + n, (uint8_t *)buf);
                rq.erase(rq.begin(), rq.begin() + n);
                s->in->consumed += n;
                G->kmut++;
                if (n < len && len <= 4) G->count("probe.hdr_split_read");
                G->logf("recv(%d,%zu) = %zu", fd, len, n);
                KRET(C_RECV, (ssize_t)n);
            }
            // Linux tcp_recvmsg: a FIN already received (SOCK_DONE) ends the stream with 0 before a pending error is looked at
            if (s->in->fin_delivered) { G->logf("recv(%d,%zu) = 0 (EOF)", fd, len); KRET(C_RECV, 0); }
            if (s->so_error) { int er = s->so_error; s->so_error = 0; G->logf("recv(%d,%zu) = %s", fd, len, strerror(er)); KERR(C_RECV, er); }
            if (s->dead) { G->logf("recv(%d,%zu) = 0 (EOF)", fd, len); KRET(C_RECV, 0); }
            if (s->nonblock) { G->logf("recv(%d,%zu) = EAGAIN", fd, len); KERR(C_RECV, EAGAIN); }
            maysleep_check("recv() on a blocking descriptor");
            bool ok = block_until([s] { return !s->in->rq.empty() || s->dead || s->in->fin_delivered || s->so_error; }, -1, "recv");
            if (!ok) KERR(C_RECV, EINTR);
        }
    }
    if (auto s = std::dynamic_pointer_cast<UnixSock>(e->f)) {
        if (s->st != UnixSock::CONNECTED) KERR(C_RECV, ENOTCONN);
        if (hit && f.kind == "errno") { G->logf("recv(%d,%zu) = %s [fault]", fd, len, strerror((int)f.arg)); KERR(C_RECV, (int)f.arg); }
        for (;;) {
            if (s->reset_pending) { s->reset_pending = false; G->kmut++; G->logf("recv(%d) = ECONNRESET", fd); KERR(C_RECV, ECONNRESET); }
            if (!s->rq.empty()) {
                if (K->p_eagain_recv > 0 && s->nonblock && G->r_fault.chance(K->p_eagain_recv)) { G->count("fault.eagain_recv"); G->kmut++; KERR(C_RECV, EAGAIN); }
                std::string m = std::move(s->rq.front());
                s->rq.pop_front();
                s->rq_bytes -= m.size();
                size_t n = std::min(len, m.size());
                memcpy(buf, m.data(), n);
                G->kmut++;
                G->logf("recv(%d,%zu) = %zu (msg %zu)", fd, len, n, m.size());
                KRET(C_RECV, (ssize_t)((flags & MSG_TRUNC) ? m.size() : n));
            }
            auto p = s->peer.lock();
            if (s->peer_closed || !p || p->closed) { G->logf("recv(%d) = 0 (EOF)", fd); KRET(C_RECV, 0); }
            if (s->nonblock) { G->logf("recv(%d,%zu) = EAGAIN", fd, len); KERR(C_RECV, EAGAIN); }
            maysleep_check("recv() on a blocking descriptor");
            Time dl = s->rcvtimeo > 0 ? G->now + s->rcvtimeo : -1;
            bool ok = block_until([s] { auto p = s->peer.lock(); return !s->rq.empty() || s->reset_pending || s->peer_closed || !p || p->closed; }, dl, "ux recv");
            if (!ok) KERR(C_RECV, G->stopping ? EINTR : EAGAIN);
        }
    }
    KERR(C_RECV, ENOTSOCK);
}

int close(int fd) {
    yield_point("close");
    Task *t = cur();
    auto &tab = K->fdt[t ? t->pid : 1];
    auto i = tab.find(fd);
    if (i == tab.end()) {
        G->logf("close(%d) = EBADF", fd);
        if (lib_ctx() && fd >= 0 && fd < FD_BASE)
            G->violation("C08.foreign_fd", "library code called close(%d): not a descriptor of the simulated process (inside %s)", fd, t->api_name);
        KERR(C_CLOSE, EBADF);
    }
    foreign_check(&i->second, fd, "close");
    auto f = i->second.f;
    if (auto ts = std::dynamic_pointer_cast<TcpSock>(f)) {
        // SO_LINGER with a non-zero time: close() of a connected socket waits until the FIN is acknowledged (or the time is up),
        // whatever O_NONBLOCK says (inet_release -> tcp_close -> sk_stream_wait_close)
        int secs = ts->opt(SOL_SOCKET, 0x7f01, 0);
        if (f->open_fds <= 1 && ts->st == TcpSock::EST && ts->opt(SOL_SOCKET, SO_LINGER, 0) && secs > 0) {
            maysleep_check("close() of a connected TCP socket with SO_LINGER set");
            Time w = std::min<Time>((Time)secs * SEC, 2 * K->latency_for(ts->remote) + US);
            block_until([] { return false; }, G->now + w, "lingering close");
            i = tab.find(fd);
            if (i == tab.end()) KERR(C_CLOSE, EBADF);
        }
    }
    tab.erase(i);
    for (auto &w : K->epolls)
        if (auto ep = w.lock()) {
            auto r = ep->regs.find(fd);
            if (r != ep->regs.end() && r->second.f.lock() == f) ep->regs.erase(r);
        }
    if (--f->open_fds <= 0) f->last_close();
    G->kmut++;
    G->logf("close(%d) = 0", fd);
    KRET(C_CLOSE, 0);
}

int getsockname(int fd, struct sockaddr *sa, socklen_t *len) {
    FdEnt *e = K->ent(fd);
    if (!e) KERR(C_GSN, EBADF);
    Addr a;
    if (auto s = std::dynamic_pointer_cast<TcpSock>(e->f)) a = s->local;
    else if (auto s = std::dynamic_pointer_cast<UnixSock>(e->f)) { a = s->local; a.family = AF_UNIX; }
    else KERR(C_GSN, ENOTSOCK);
    *len = a.to_sockaddr(sa, *len);
    KRET(C_GSN, 0);
}
int getpeername(int fd, struct sockaddr *sa, socklen_t *len) {
    FdEnt *e = K->ent(fd);
    if (!e) KERR(C_GPN, EBADF);
    Addr a;
    if (auto s = std::dynamic_pointer_cast<TcpSock>(e->f)) {
        if (s->st != TcpSock::EST) KERR(C_GPN, ENOTCONN);
        a = s->remote;
    } else if (auto s = std::dynamic_pointer_cast<UnixSock>(e->f)) {
        if (s->st != UnixSock::CONNECTED) KERR(C_GPN, ENOTCONN);
        auto p = s->peer.lock();
        if (p) a = p->local;
        a.family = AF_UNIX;
        // Linux quirk relied upon by XCM's comment: with SO_PASSCRED on a pathname socket the
        // reported length may cover an autobind name that is not written; we report what we have.
    } else KERR(C_GPN, ENOTSOCK);
    *len = a.to_sockaddr(sa, *len);
    KRET(C_GPN, 0);
}

struct tcp_info_min { uint8_t pad[8]; uint32_t f[60]; };

int getsockopt(int fd, int level, int name, void *val, socklen_t *len) {
    yield_point("getsockopt");
    FdEnt *e = K->ent(fd);
    if (!e) KERR(C_GSO, EBADF);
    if (auto s = std::dynamic_pointer_cast<TcpSock>(e->f)) {
        if (level == SOL_SOCKET && name == SO_ERROR) {
            int v = s->so_error;
            s->so_error = 0;
            if (*len >= sizeof(int)) { memcpy(val, &v, sizeof(int)); *len = sizeof(int); }
            G->kmut++;
            KRET(C_GSO, 0);
        }
        if (level == IPPROTO_TCP && name == TCP_INFO) {
            // struct tcp_info of a 4.3+ kernel: 192 bytes; contents are modelled trivially
            uint8_t info[232];
            memset(info, 0, sizeof(info));
            uint32_t rtt = (uint32_t)(K->base_latency * 2 / US);
            memcpy(info + 68, &rtt, 4);  // tcpi_rtt
            uint32_t so = s->out ? (uint32_t)(s->out->accepted / 1000 + 1) : 0, si = s->in ? (uint32_t)(s->in->delivered / 1000 + 1) : 0;
            memcpy(info + 136, &so, 4);  // tcpi_segs_out
            memcpy(info + 140, &si, 4);  // tcpi_segs_in
            socklen_t n = std::min<socklen_t>(*len, sizeof(info));
            memcpy(val, info, n);
            *len = n;
            KRET(C_GSO, 0);
        }
        int v = s->opt(level, name, 0);
        if (*len >= sizeof(int)) { memcpy(val, &v, sizeof(int)); *len = sizeof(int); }
        KRET(C_GSO, 0);
    }
    if (std::dynamic_pointer_cast<UnixSock>(e->f)) {
        int v = 0;
        if (*len >= sizeof(int)) { memcpy(val, &v, sizeof(int)); *len = sizeof(int); }
        KRET(C_GSO, 0);
    }
    KERR(C_GSO, ENOTSOCK);
}

int setsockopt(int fd, int level, int name, const void *val, socklen_t len) {
    yield_point("setsockopt");
    FdEnt *e = K->ent(fd);
    if (!e) KERR(C_SSO, EBADF);
    Fault f;
    if (fault_hit("setsockopt", f, fd) && f.kind == "errno") KERR(C_SSO, (int)f.arg);
    if (auto s = std::dynamic_pointer_cast<TcpSock>(e->f)) {
        int v = 0;
        if (len >= sizeof(int)) memcpy(&v, val, sizeof(int));
        if (level == IPPROTO_TCP) {
            if ((name == TCP_KEEPIDLE || name == TCP_KEEPINTVL) && (v < 1 || v > 32767)) KERR(C_SSO, EINVAL);
            if (name == TCP_KEEPCNT && (v < 1 || v > 127)) KERR(C_SSO, EINVAL);
            if (name == TCP_USER_TIMEOUT && v < 0) KERR(C_SSO, EINVAL);
            if (name == TCP_SYNCNT && (v < 1 || v > 127)) KERR(C_SSO, EINVAL);
        }
        if (level == IPPROTO_IP && s->family != AF_INET && name == IP_TOS) { /* accepted on v6 sockets too */ }
        foreign_check(e, fd, "setsockopt");
        s->opts[(level << 16) | name] = v;
        if (level == SOL_SOCKET && name == SO_LINGER) { int secs = 0; if (len >= 2 * sizeof(int)) memcpy(&secs, (const char *)val + sizeof(int), sizeof(int)); s->opts[(SOL_SOCKET << 16) | 0x7f01] = secs; }
        G->kmut++;
        KRET(C_SSO, 0);
    }
    if (auto s = std::dynamic_pointer_cast<UnixSock>(e->f)) {
        foreign_check(e, fd, "setsockopt");
        if (level == SOL_SOCKET && name == SO_PASSCRED) { int v = 0; memcpy(&v, val, std::min<size_t>(len, sizeof(v))); s->passcred = v != 0; }
        if (level == SOL_SOCKET && (name == SO_RCVTIMEO || name == SO_SNDTIMEO) && len >= sizeof(struct timeval)) {
            struct timeval tv; memcpy(&tv, val, sizeof(tv));
            Time t = tv.tv_sec * SEC + tv.tv_usec * US;
            if (name == SO_RCVTIMEO) s->rcvtimeo = t; else s->sndtimeo = t;
        }
        KRET(C_SSO, 0);
    }
    KERR(C_SSO, ENOTSOCK);
}

int fcntl(int fd, int cmd, long arg) {
    FdEnt *e = K->ent(fd);
    if (!e) KERR(C_FCNTL, EBADF);
    if (cmd == F_GETFL) KRET(C_FCNTL, O_RDWR | (e->f->nonblock ? O_NONBLOCK : 0));
    if (cmd == F_SETFL) { e->f->nonblock = (arg & O_NONBLOCK) != 0; KRET(C_FCNTL, 0); }
    if (cmd == F_GETFD || cmd == F_SETFD) KRET(C_FCNTL, 0);
    KERR(C_FCNTL, EINVAL);
}

static int poll_eval(struct pollfd *fds, nfds_t n) {
    int ready = 0;
    for (nfds_t i = 0; i < n; i++) {
        fds[i].revents = 0;
        if (fds[i].fd < 0) continue;
        auto f = K->file(fds[i].fd);
        if (!f) { fds[i].revents = POLLNVAL; ready++; continue; }
        short m = f->poll_mask();
        short r = m & (fds[i].events | POLLERR | POLLHUP);
        fds[i].revents = r;
        if (r) ready++;
    }
    return ready;
}

int poll(struct pollfd *fds, nfds_t n, int timeout_ms) {
    yield_point("poll");
    Fault f;
    bool hit = fault_hit("poll", f);
    if (timeout_ms != 0) maysleep_check(timeout_ms < 0 ? "poll(-1)" : "poll(timeout>0)");
    if (hit && f.kind == "eintr" && timeout_ms != 0) { G->logf("poll() = EINTR [fault]"); KERR(C_POLL, EINTR); }
    // ambient: a signal handler runs while the library waits inside a blocking call (data-path calls only: an interrupted
    // connection set-up leaves a half-made connection behind whose fate is the application's own business)
    if (K->p_eintr > 0 && timeout_ms != 0 && lib_ctx() && !G->stopping && cur()->api_name && (!strcmp(cur()->api_name, "xcm_send") || !strcmp(cur()->api_name, "xcm_receive") || !strcmp(cur()->api_name, "xcm_finish")) &&
        G->r_fault.chance(K->p_eintr)) { G->count("fault.eintr_wait"); G->logf("poll() = EINTR [ambient]"); KERR(C_POLL, EINTR); }   // (no kernel state changes: the spin bookkeeping carries on)
    // unwinding at the end of a run: every wait is interrupted, whether or not something is ready, so that
    // library-internal wait loops (blocking calls) return to the harness
    if (G->stopping && timeout_ms != 0) KERR(C_POLL, EINTR);
    int r = poll_eval(fds, n);
    Task *t = cur();
    uint64_t sig = 1469598103934665603ULL;
    for (nfds_t i = 0; i < n; i++) sig = (sig ^ (uint64_t)(fds[i].fd * 131 + fds[i].events)) * 1099511628211ULL;
    // (a few identical rounds are let through: the library may count wake-ups internally, e.g. before it
    //  serves its control interface)
    if (timeout_ms == 0) {   // a readiness probe (the library's own ut_is_readable): no part of the wait bookkeeping
        G->logf("poll(fd %d, tmo 0) = %d", n ? fds[0].fd : -1, r);
        G->trace(C_POLL, r);
        return r;
    }
    if (r && t->poll_kmut == G->kmut && t->poll_sig == sig) t->same_polls++; else t->same_polls = 0;
    if (r && timeout_ms != 0 && t->poll_kmut == G->kmut && t->poll_sig == sig && t->steps > t->steps_at_poll + 1 && !G->stopping && t->same_polls >= 12) {
        // Spin compression: the task polled the same descriptors, found them ready, went round its loop
        // without changing anything in the kernel, and finds them ready again. The system is
        // deterministic, so it would repeat this until something else changes: park it until then.
        // (If nothing ever changes, the run ends quiescent with this task marked as spinning.)
        G->count("probe.spin_compressed");
        t->spins++;
        t->spin_blocked = true;
        uint64_t at = G->kmut;
        block_until([at] { return G->kmut != at; }, -1, "spin (descriptor stays readable, no progress)");
        t->spin_blocked = false;
        r = poll_eval(fds, n);
    }
    if (r || timeout_ms == 0) G->logf("poll(fd %d, tmo %d) = %d", n ? fds[0].fd : -1, timeout_ms, r);
    if (r || timeout_ms == 0) { t->poll_kmut = G->kmut; t->poll_sig = sig; t->ops_since_poll = 0; t->steps_at_poll = t->steps; G->trace(C_POLL, r); return r; }
    std::vector<struct pollfd> copy(fds, fds + n);
    Time dl = timeout_ms < 0 ? -1 : G->now + (Time)timeout_ms * MS;
    int pid = t->pid;
    block_until([copy, pid]() mutable {
        auto &tab = K->fdt[pid];
        for (auto &p : copy) {
            if (p.fd < 0) continue;
            auto i = tab.find(p.fd);
            if (i == tab.end()) return true;
            if (i->second.f->poll_mask() & (p.events | POLLERR | POLLHUP)) return true;
        }
        return false;
    }, dl, "poll");
    r = poll_eval(fds, n);
    G->logf("poll(fd %d, tmo %d) = %d after wait%s", n ? fds[0].fd : -1, timeout_ms, r, G->stopping ? " [stopping]" : "");
    if (r == 0 && G->stopping) KERR(C_POLL, EINTR);
    t->poll_kmut = G->kmut;
    t->poll_sig = sig;
    t->ops_since_poll = 0; t->steps_at_poll = t->steps;
    G->trace(C_POLL, r);
    return r;
}

int epoll_create1(int flags) {
    yield_point("epoll_create1");
    if (int er = rescall_fault("epoll_create1")) KERR(C_EPC, er);
    auto e = std::make_shared<EpollFile>();
    K->epolls.push_back(e);
    int fd = K->install(e);
    (void)flags;
    KRET(C_EPC, fd);
}

int epoll_ctl(int epfd, int op, int fd, void *evp) {
    yield_point("epoll_ctl");
    struct epoll_event *ev = (struct epoll_event *)evp;
    FdEnt *ee = K->ent(epfd);
    if (!ee) KERR(C_EPCTL, EBADF);
    auto ep = std::dynamic_pointer_cast<EpollFile>(ee->f);
    FdEnt *te = K->ent(fd);
    if (!te) { G->logf("epoll_ctl(%d, op %d, fd %d) = EBADF", epfd, op, fd); KERR(C_EPCTL, EBADF); }
    if (!ep || te->f == ee->f) KERR(C_EPCTL, EINVAL);
    auto r = ep->regs.find(fd);
    bool present = r != ep->regs.end() && r->second.f.lock() == te->f;
    if (op == EPOLL_CTL_ADD) {
        if (present) KERR(C_EPCTL, EEXIST);
        foreign_check(te, fd, "epoll_ctl(ADD)");
        ep->regs[fd] = EpollFile::Reg{te->f, ev ? ev->events : 0};
    } else if (op == EPOLL_CTL_MOD) {
        if (!present) KERR(C_EPCTL, ENOENT);
        r->second.events = ev ? ev->events : 0;
    } else if (op == EPOLL_CTL_DEL) {
        if (!present) { G->logf("epoll_ctl(%d, DEL, %d) = ENOENT", epfd, fd); KERR(C_EPCTL, ENOENT); }
        // deleting a registration inside a foreign epoll instance alters that instance
        if (!ee->lib_created && lib_ctx()) foreign_check(ee, epfd, "epoll_ctl(DEL)");
        ep->regs.erase(r);
    } else KERR(C_EPCTL, EINVAL);
    G->kmut++;
    child_check(op == EPOLL_CTL_DEL ? "epoll_ctl(DEL)" : op == EPOLL_CTL_MOD ? "epoll_ctl(MOD)" : "epoll_ctl(ADD)", fd);
    G->logf("epoll_ctl(%d, op %d, fd %d, ev 0x%x) = 0", epfd, op, fd, ev ? ev->events : 0);
    KRET(C_EPCTL, 0);
}

int eventfd(unsigned initval, int flags) {
    yield_point("eventfd");
    if (int er = rescall_fault("eventfd")) KERR(C_EVFD, er);
    auto e = std::make_shared<EventFd>();
    e->counter = initval;
    e->nonblock = (flags & EFD_NONBLOCK) != 0;
    int fd = K->install(e);
    G->count("probe.eventfd_created");
    KRET(C_EVFD, fd);
}

int timerfd_create(int clockid, int flags) {
    yield_point("timerfd_create");
    if (int er = rescall_fault("timerfd_create")) KERR(C_TFDC, er);
    auto e = std::make_shared<TimerFd>();
    e->nonblock = (flags & TFD_NONBLOCK) != 0;
    int fd = K->install(e);
    (void)clockid;
    KRET(C_TFDC, fd);
}

int timerfd_settime(int fd, int flags, const struct itimerspec *nv, struct itimerspec *ov) {
    yield_point("timerfd_settime");
    FdEnt *e = K->ent(fd);
    if (!e) KERR(C_TFDS, EBADF);
    auto t = std::dynamic_pointer_cast<TimerFd>(e->f);
    if (!t) KERR(C_TFDS, EINVAL);
    foreign_check(e, fd, "timerfd_settime");
    child_check("timerfd_settime", fd);
    if (ov) memset(ov, 0, sizeof(*ov));
    Time v = nv->it_value.tv_sec * SEC + nv->it_value.tv_nsec;
    if (v == 0) t->armed = false;
    else {
        t->armed = true;
        t->expiry = (flags & TFD_TIMER_ABSTIME) ? v : G->now + v;
        Time d = t->expiry - G->now;
        G->after(d > 0 ? d : 0, [] { G->kmut++; });
    }
    G->kmut++;
    G->logf("timerfd_settime(%d) %s expiry=%lld.%09lld", fd, t->armed ? "armed" : "disarmed", (long long)(t->expiry / SEC), (long long)(t->expiry % SEC));
    KRET(C_TFDS, 0);
}

int clock_gettime(int clk, struct timespec *ts) {
    G->now += 100;  // time moves, no scheduling point
    Time t = (clk == CLOCK_REALTIME || clk == CLOCK_REALTIME_COARSE) ? EPOCH0 + G->now + G->wall_offset : G->now;
    ts->tv_sec = t / SEC;
    ts->tv_nsec = t % SEC;
    return 0;
}

}  // namespace k

// ------------------------------------------------------------------ file system
static std::string norm(const std::string &p) {
    std::vector<std::string> parts;
    size_t i = 0;
    while (i < p.size()) {
        size_t j = p.find('/', i);
        if (j == std::string::npos) j = p.size();
        std::string c = p.substr(i, j - i);
        if (c == "..") { if (!parts.empty()) parts.pop_back(); }
        else if (!c.empty() && c != ".") parts.push_back(c);
        i = j + 1;
    }
    std::string r;
    for (auto &c : parts) r += "/" + c;
    return r.empty() ? "/" : r;
}
bool Kernel::resolve(const std::string &path, bool follow_last, std::string &out, int depth) {
    if (depth > 8 || path.empty()) return false;
    std::string p = norm(path[0] == '/' ? path : "/" + path);
    if (p == "/") { out = "/"; return true; }
    std::string curp;
    size_t i = 1;
    while (i <= p.size()) {
        size_t j = p.find('/', i);
        if (j == std::string::npos) j = p.size();
        std::string comp = p.substr(i, j - i);
        std::string next = curp + "/" + comp;
        bool last = j >= p.size();
        auto it = fs.find(next);
        if (it == fs.end()) return false;
        if (it->second.type == FsNode::LNK && (!last || follow_last)) {
            std::string tgt = it->second.data;
            if (tgt.empty()) return false;
            if (tgt[0] != '/') tgt = (curp.empty() ? "" : curp) + "/" + tgt;
            std::string rest = last ? "" : p.substr(j);
            return resolve(tgt + rest, follow_last, out, depth + 1);
        }
        if (!last && it->second.type != FsNode::DIR) return false;
        curp = next;
        i = j + 1;
    }
    out = curp;
    return true;
}
void Kernel::mkdir_p(const std::string &path) {
    std::string p = norm(path), curp;
    size_t i = 1;
    while (i <= p.size()) {
        size_t j = p.find('/', i);
        if (j == std::string::npos) j = p.size();
        curp += "/" + p.substr(i, j - i);
        std::string rp;
        if (!resolve(curp, true, rp)) { FsNode n; n.type = FsNode::DIR; n.ino = next_ino++; n.mode = 0755; n.mtime = G ? G->now : 0; fs[curp] = n; }
        else curp = rp;
        i = j + 1;
    }
}
static Time stamp(Time now, Time gran) { return gran > 1 ? (now / gran) * gran : now; }
void Kernel::write_file(const std::string &path, const std::string &data, bool new_inode) {
    std::string rp;
    if (resolve(path, true, rp)) {
        FsNode &n = fs[rp];
        n.data = data;
        n.mtime = stamp(G ? G->now : 0, mtime_gran);
        if (new_inode) n.ino = next_ino++;
    } else {
        std::string p = norm(path);
        size_t sl = p.rfind('/');
        std::string dir = sl == 0 ? "/" : p.substr(0, sl), rdir;
        if (!resolve(dir, true, rdir)) { mkdir_p(dir); resolve(dir, true, rdir); }
        FsNode n; n.type = FsNode::REG; n.data = data; n.ino = next_ino++; n.mtime = stamp(G ? G->now : 0, mtime_gran);
        fs[(rdir == "/" ? "" : rdir) + p.substr(sl)] = n;
    }
    if (G) G->kmut++;
}
void Kernel::rename_over(const std::string &from, const std::string &to) {
    std::string rf;
    if (!resolve(from, false, rf)) return;
    FsNode n = fs[rf];
    fs.erase(rf);
    std::string p = norm(to);
    size_t sl = p.rfind('/');
    std::string dir = sl == 0 ? "/" : p.substr(0, sl), rdir;
    if (!resolve(dir, true, rdir)) return;
    fs[(rdir == "/" ? "" : rdir) + p.substr(sl)] = n;
    if (G) G->kmut++;
}
void Kernel::symlink(const std::string &target, const std::string &linkpath) {
    std::string p = norm(linkpath);
    size_t sl = p.rfind('/');
    std::string dir = sl == 0 ? "/" : p.substr(0, sl), rdir;
    if (!resolve(dir, true, rdir)) { mkdir_p(dir); resolve(dir, true, rdir); }
    FsNode n; n.type = FsNode::LNK; n.data = target; n.ino = next_ino++; n.mtime = stamp(G ? G->now : 0, mtime_gran); n.mode = 0777;
    fs[(rdir == "/" ? "" : rdir) + p.substr(sl)] = n;
    if (G) G->kmut++;
}
void Kernel::remove_path(const std::string &path) {
    std::string rp;
    if (resolve(path, false, rp)) fs.erase(rp);
}
std::vector<std::string> Kernel::list_dir(const std::string &path) {
    std::vector<std::string> r;
    std::string rp;
    if (!resolve(path, true, rp)) return r;
    std::string prefix = rp == "/" ? "/" : rp + "/";
    // in creation (inode) order: names may embed process-wide counters of the code under test, which must not decide any order
    std::vector<std::pair<uint64_t, std::string>> ents;
    for (auto &kv : fs) {
        if (kv.first.size() > prefix.size() && kv.first.compare(0, prefix.size(), prefix) == 0 && kv.first.find('/', prefix.size()) == std::string::npos)
            ents.emplace_back(kv.second.ino, kv.first.substr(prefix.size()));
    }
    std::sort(ents.begin(), ents.end());
    for (auto &e : ents) r.push_back(e.second);
    return r;
}

namespace k {

int stat(const char *path, struct stat *st, bool follow) {
    yield_point("stat");
    Fault f;
    if (fault_hit("stat", f) && f.kind == "errno") KERR(C_STAT, (int)f.arg);
    memset(st, 0, sizeof(*st));
    // /proc/<tid>/ns/net
    int tid = 0;
    if (sscanf(path, "/proc/%d/ns/net", &tid) == 1) {
        int ns = 0;
        for (auto &t : G->tasks) if (t->tid == tid) ns = t->netns;
        st->st_dev = 4; st->st_ino = 4026531000ULL + ns; st->st_mode = S_IFREG | 0444;
        KRET(C_STAT, 0);
    }
    std::string rp;
    if (!K->resolve(path, follow, rp)) { G->logf("stat(%s) = ENOENT", path); KERR(C_STAT, ENOENT); }
    FsNode &n = K->fs[rp];
    st->st_dev = n.dev; st->st_ino = n.ino;
    st->st_mode = n.mode | (n.type == FsNode::DIR ? S_IFDIR : n.type == FsNode::LNK ? S_IFLNK : n.type == FsNode::SOCK ? S_IFSOCK : S_IFREG);
    st->st_size = n.type == FsNode::REG || n.type == FsNode::LNK ? (off_t)n.data.size() : 4096;
    st->st_mtim.tv_sec = (EPOCH0 + n.mtime) / SEC;
    st->st_mtim.tv_nsec = (EPOCH0 + n.mtime) % SEC;
    st->st_nlink = 1;
    G->logf("stat(%s) ino=%llu size=%lld mtime=%lld", path, (unsigned long long)n.ino, (long long)st->st_size, (long long)n.mtime);
    KRET(C_STAT, 0);
}

struct Cookie { std::string data; size_t off = 0; int fail_after = -1; };
static ssize_t ck_read(void *c, char *buf, size_t n) {
    Cookie *k = (Cookie *)c;
    if (k->fail_after >= 0 && (int)k->off >= k->fail_after) { errno = EIO; return -1; }
    size_t m = std::min(n, k->data.size() - k->off);
    if (k->fail_after >= 0) m = std::min<size_t>(m, (size_t)k->fail_after - k->off);
    memcpy(buf, k->data.data() + k->off, m);
    k->off += m;
    return (ssize_t)m;
}
static int ck_close(void *c) { delete (Cookie *)c; return 0; }

FILE *fopen(const char *path, const char *mode) {
    yield_point("fopen");
    if (int er = rescall_fault("fopen")) { errno = er; G->trace(C_FOPEN, -er); return nullptr; }
    Fault f;
    bool hit = fault_hit("fopen", f);
    if (hit && f.kind == "errno") { errno = (int)f.arg; G->trace(C_FOPEN, -errno); return nullptr; }
    if (K->on_lib_fopen && lib_ctx()) K->on_lib_fopen(path);
    std::string rp;
    if (!K->resolve(path, true, rp)) { errno = ENOENT; G->trace(C_FOPEN, -ENOENT); return nullptr; }
    FsNode &n = K->fs[rp];
    if (n.type == FsNode::DIR) { errno = EISDIR; G->trace(C_FOPEN, -EISDIR); return nullptr; }
    if ((n.mode & 0444) == 0) { errno = EACCES; G->trace(C_FOPEN, -EACCES); return nullptr; }
    Cookie *c = new Cookie;
    c->data = n.data;
    if (hit && f.kind == "eio") c->fail_after = (int)f.arg;
    cookie_io_functions_t io = {ck_read, nullptr, nullptr, ck_close};
    FILE *fp = fopencookie(c, "r", io);
    G->logf("fopen(%s) ok (%zu bytes)", path, n.data.size());
    G->trace(C_FOPEN, 1);
    (void)mode;
    return fp;
}

int unlink(const char *path) {
    yield_point("unlink");
    std::string rp;
    if (!K->resolve(path, false, rp)) { G->logf("unlink(%s) = ENOENT", path); KERR(C_UNLINK, ENOENT); }
    if (K->fs[rp].type == FsNode::DIR) KERR(C_UNLINK, EISDIR);
    if (K->fs[rp].type == FsNode::SOCK && lib_ctx()) {
        // the library removes a socket file that a live listening socket of this process is bound to: two sockets derived the
        // same name (e.g. from a process-wide id that is not unique)
        auto ls = K->fs[rp].sock.lock();
        if (ls && !ls->closed && ls->st == UnixSock::LISTEN)
            G->violation("C15.path_collision", "library code unlinked %s while a live listening socket is bound to it: two sockets of the process derived the same file name", path);
    }
    K->fs.erase(rp);
    G->kmut++;
    child_check("unlink", -1);
    G->logf("unlink(%s) = 0", path);
    KRET(C_UNLINK, 0);
}

struct SimDir { std::vector<std::string> names; size_t i = 0; struct dirent de; std::string path; };
void *opendir(const char *path) {
    yield_point("opendir");
    std::string rp;
    if (!K->resolve(path, true, rp) || K->fs[rp].type != FsNode::DIR) { errno = ENOENT; G->trace(C_OPENDIR, -ENOENT); return nullptr; }
    SimDir *d = new SimDir;
    d->names = K->list_dir(rp);
    d->path = rp;
    d->names.insert(d->names.begin(), {".", ".."});
    G->trace(C_OPENDIR, 1);
    return d;
}
struct dirent *readdir(void *dp) {
    SimDir *d = (SimDir *)dp;
    if (d->i >= d->names.size()) return nullptr;
    memset(&d->de, 0, sizeof(d->de));
    snprintf(d->de.d_name, sizeof(d->de.d_name), "%s", d->names[d->i++].c_str());
    d->de.d_ino = 1;
    d->de.d_type = DT_DIR;
    auto it = K->fs.find(d->path + "/" + d->de.d_name);
    if (it != K->fs.end()) d->de.d_type = it->second.type == FsNode::DIR ? DT_DIR : it->second.type == FsNode::LNK ? DT_LNK : it->second.type == FsNode::SOCK ? DT_SOCK : DT_REG;
    return &d->de;
}
int closedir(void *dp) { delete (SimDir *)dp; return 0; }

char *getenv(const char *name) {
    auto i = K->env.find(name);
    if (i == K->env.end()) return nullptr;
    return (char *)i->second.c_str();
}

}  // namespace k
}  // namespace xs
