// xsim core implementation: JSON, plans, baton scheduler, event queue.
// NOTE: this translation unit is never compiled with -fsanitize=thread: the baton must stay
// invisible to ThreadSanitizer so that the serialisation it imposes adds no happens-before edge.
#include "sim.h"
#include <algorithm>
#include <cerrno>
#include <climits>
#include <linux/futex.h>
#include <sys/syscall.h>
#include <unistd.h>

extern "C" long __real_syscall(long nr, ...);

namespace xs {

Sim *G = nullptr;
static thread_local Task *t_cur = nullptr;
Task *cur() { return t_cur; }

uint64_t mix64(uint64_t a, uint64_t b) {
    Rng r(a ^ (b * 0x9e3779b97f4a7c15ULL) ^ 0x5851f42d4c957f2dULL);
    r.next();
    return r.next();
}

std::string strf(const char *fmt, ...) {
    char buf[2048];
    va_list ap;
    va_start(ap, fmt);
    vsnprintf(buf, sizeof(buf), fmt, ap);
    va_end(ap);
    return buf;
}

std::string hexdump(const void *p, size_t n, size_t max) {
    std::string s;
    const unsigned char *c = (const unsigned char *)p;
    for (size_t i = 0; i < n && i < max; i++) s += strf("%02x", c[i]);
    if (n > max) s += "..";
    return s;
}

// ------------------------------------------------------------------ JSON
Json &Json::set(const std::string &k, Json v) {
    t = OBJ;
    for (auto &kv : o)
        if (kv.first == k) { kv.second = std::move(v); return *this; }
    o.emplace_back(k, std::move(v));
    return *this;
}
const Json *Json::get(const std::string &k) const {
    for (auto &kv : o)
        if (kv.first == k) return &kv.second;
    return nullptr;
}
int64_t Json::num(const std::string &k, int64_t def) const {
    const Json *j = get(k);
    if (!j) return def;
    if (j->t == BOOL) return j->b;
    if (j->t != NUM) return def;
    return j->is_dbl ? (int64_t)j->d : j->n;
}
std::string Json::str(const std::string &k, const std::string &def) const {
    const Json *j = get(k);
    return j && j->t == STR ? j->s : def;
}
static void dump_str(const std::string &s, std::string &out) {
    out += '"';
    for (unsigned char c : s) {
        if (c == '"') out += "\\\"";
        else if (c == '\\') out += "\\\\";
        else if (c == '\n') out += "\\n";
        else if (c == '\t') out += "\\t";
        else if (c == '\r') out += "\\r";
        else if (c < 0x20 || c >= 0x7f) out += strf("\\u%04x", c);
        else out += (char)c;
    }
    out += '"';
}
static void dump_rec(const Json &j, std::string &out) {
    switch (j.t) {
    case Json::NUL: out += "null"; break;
    case Json::BOOL: out += j.b ? "true" : "false"; break;
    case Json::NUM: out += j.is_dbl ? strf("%.6g", j.d) : strf("%lld", (long long)j.n); break;
    case Json::STR: dump_str(j.s, out); break;
    case Json::ARR:
        out += '[';
        for (size_t i = 0; i < j.a.size(); i++) { if (i) out += ','; dump_rec(j.a[i], out); }
        out += ']';
        break;
    case Json::OBJ:
        out += '{';
        for (size_t i = 0; i < j.o.size(); i++) {
            if (i) out += ',';
            dump_str(j.o[i].first, out);
            out += ':';
            dump_rec(j.o[i].second, out);
        }
        out += '}';
        break;
    }
}
std::string Json::dump() const { std::string s; dump_rec(*this, s); return s; }

struct JP {
    const std::string &t; size_t i = 0; bool ok = true;
    explicit JP(const std::string &s) : t(s) {}
    void ws() { while (i < t.size() && (t[i] == ' ' || t[i] == '\n' || t[i] == '\t' || t[i] == '\r')) i++; }
    bool lit(const char *l) { size_t n = strlen(l); if (t.compare(i, n, l) == 0) { i += n; return true; } return false; }
    std::string pstr() {
        std::string s; i++;
        while (i < t.size() && t[i] != '"') {
            if (t[i] == '\\' && i + 1 < t.size()) {
                char c = t[i + 1]; i += 2;
                if (c == 'n') s += '\n'; else if (c == 't') s += '\t'; else if (c == 'r') s += '\r';
                else if (c == 'u' && i + 4 <= t.size()) { s += (char)strtol(t.substr(i, 4).c_str(), nullptr, 16); i += 4; }
                else s += c;
            } else s += t[i++];
        }
        if (i >= t.size()) ok = false; else i++;
        return s;
    }
    Json val() {
        ws();
        Json j;
        if (i >= t.size()) { ok = false; return j; }
        char c = t[i];
        if (c == '{') {
            j.t = Json::OBJ; i++; ws();
            if (i < t.size() && t[i] == '}') { i++; return j; }
            while (ok) {
                ws();
                if (i >= t.size() || t[i] != '"') { ok = false; break; }
                std::string k = pstr(); ws();
                if (i >= t.size() || t[i] != ':') { ok = false; break; }
                i++;
                j.o.emplace_back(k, val()); ws();
                if (i < t.size() && t[i] == ',') { i++; continue; }
                if (i < t.size() && t[i] == '}') { i++; break; }
                ok = false;
            }
        } else if (c == '[') {
            j.t = Json::ARR; i++; ws();
            if (i < t.size() && t[i] == ']') { i++; return j; }
            while (ok) {
                j.a.push_back(val()); ws();
                if (i < t.size() && t[i] == ',') { i++; continue; }
                if (i < t.size() && t[i] == ']') { i++; break; }
                ok = false;
            }
        } else if (c == '"') { j.t = Json::STR; j.s = pstr(); }
        else if (lit("true")) { j.t = Json::BOOL; j.b = true; }
        else if (lit("false")) { j.t = Json::BOOL; j.b = false; }
        else if (lit("null")) { j.t = Json::NUL; }
        else {
            size_t st = i; bool dbl = false;
            while (i < t.size() && (isdigit((unsigned char)t[i]) || t[i] == '-' || t[i] == '+' || t[i] == '.' || t[i] == 'e' || t[i] == 'E')) {
                if (t[i] == '.' || t[i] == 'e' || t[i] == 'E') dbl = true;
                i++;
            }
            if (st == i) { ok = false; return j; }
            j.t = Json::NUM;
            std::string num = t.substr(st, i - st);
            if (dbl) { j.is_dbl = true; j.d = strtod(num.c_str(), nullptr); } else j.n = strtoll(num.c_str(), nullptr, 10);
        }
        return j;
    }
};
bool Json::parse(const std::string &text, Json &out) {
    JP p(text);
    out = p.val();
    return p.ok;
}

// ------------------------------------------------------------------ Plan <-> JSON
Json Plan::to_json() const {
    Json j = Json::obj();
    j.set("format", 1).set("family", family).set("property", prop).set("seed", (int64_t)seed);
    Json jp = Json::obj();
    for (auto &kv : p) jp.set(kv.first, kv.second);
    j.set("p", jp);
    Json js = Json::obj();
    for (auto &kv : sp) js.set(kv.first, kv.second);
    j.set("sp", js);
    Json jo = Json::arr();
    for (auto &op : ops) {
        Json o = Json::obj();
        o.set("task", op.task).set("op", op.kind);
        if (!op.n.empty()) { Json a = Json::arr(); for (auto v : op.n) a.push(v); o.set("n", a); }
        if (!op.s.empty()) o.set("s", op.s);
        if (op.g) o.set("g", op.g);
        if (!op.faults.empty()) {
            Json fa = Json::arr();
            for (auto &f : op.faults) {
                Json fj = Json::obj();
                fj.set("kind", f.kind).set("call", f.call).set("nth", f.nth).set("arg", f.arg);
                if (f.arg2) fj.set("arg2", f.arg2);
                fa.push(fj);
            }
            o.set("faults", fa);
        }
        jo.push(o);
    }
    j.set("ops", jo);
    return j;
}
bool Plan::from_json(const Json &j, Plan &out) {
    if (j.t != Json::OBJ) return false;
    out = Plan();
    out.family = j.str("family");
    out.prop = j.str("property");
    out.seed = (uint64_t)j.num("seed");
    if (const Json *jp = j.get("p")) for (auto &kv : jp->o) out.p[kv.first] = kv.second.is_dbl ? (int64_t)kv.second.d : (kv.second.t == Json::BOOL ? kv.second.b : kv.second.n);
    if (const Json *js = j.get("sp")) for (auto &kv : js->o) out.sp[kv.first] = kv.second.s;
    if (const Json *jo = j.get("ops"))
        for (auto &o : jo->a) {
            Op op;
            op.task = (int)o.num("task");
            op.kind = o.str("op");
            op.s = o.str("s");
            op.g = (int)o.num("g");
            if (const Json *n = o.get("n")) for (auto &v : n->a) op.n.push_back(v.is_dbl ? (int64_t)v.d : v.n);
            if (const Json *fa = o.get("faults"))
                for (auto &fj : fa->a) {
                    Fault f;
                    f.kind = fj.str("kind"); f.call = fj.str("call");
                    f.nth = fj.num("nth", 1); f.arg = fj.num("arg"); f.arg2 = fj.num("arg2");
                    op.faults.push_back(f);
                }
            out.ops.push_back(op);
        }
    return true;
}

// ------------------------------------------------------------------ baton
static void futex_wait(uint32_t *addr, uint32_t val) { __real_syscall(SYS_futex, addr, FUTEX_WAIT_PRIVATE, val, nullptr, nullptr, 0); }
static void futex_wake(uint32_t *addr) { __real_syscall(SYS_futex, addr, FUTEX_WAKE_PRIVATE, 1, nullptr, nullptr, 0); }

static void park(Task *t) {
    while (__atomic_load_n(&t->baton, __ATOMIC_ACQUIRE) == 0) futex_wait(&t->baton, 0);
    __atomic_store_n(&t->baton, 0, __ATOMIC_RELAXED);
}
static void handoff(Task *to) {
    __atomic_store_n(&to->baton, 1, __ATOMIC_RELEASE);
    futex_wake(&to->baton);
}
static void switch_to(Task *me, Task *next) {
    if (me == next) return;
    G->switches++;
    handoff(next);
    park(me);
}

// ------------------------------------------------------------------ events
void Sim::after(Time delay, std::function<void()> fn) {
    if (delay < 0) delay = 0;
    evheap.push_back(Ev{now + delay, ++evseq, std::move(fn)});
    std::push_heap(evheap.begin(), evheap.end(), EvCmp());
}
static void run_due_events() {
    while (!G->evheap.empty() && G->evheap.front().at <= G->now) {
        std::pop_heap(G->evheap.begin(), G->evheap.end(), Sim::EvCmp());
        Sim::Ev ev = std::move(G->evheap.back());
        G->evheap.pop_back();
        ev.fn();
    }
}

// Picks the next task to run; advances simulated time when nothing is runnable.
// Returns nullptr at global quiescence (no runnable task, no pending event, no deadline).
static Task *pick() {
    for (;;) {
        Task *cand[64];
        size_t nc = 0;
        for (auto &up : G->tasks) {
            Task *t = up.get();
            if (t->st == Task::RUNNABLE) { if (nc < 64) cand[nc++] = t; }
            else if (t->st == Task::BLOCKED) {
                if ((G->stopping && !t->hard_block) || (t->wake_pred && t->wake_pred())) { t->woke_by_timeout = false; if (nc < 64) cand[nc++] = t; }
                else if (t->deadline >= 0 && t->deadline <= G->now) { t->woke_by_timeout = true; if (nc < 64) cand[nc++] = t; }
            }
        }
        if (nc) return cand[nc == 1 ? 0 : G->r_sched.below(nc)];
        Time next = -1;
        if (!G->evheap.empty()) next = G->evheap.front().at;
        for (auto &up : G->tasks)
            if (up->st == Task::BLOCKED && up->deadline >= 0 && (next < 0 || up->deadline < next)) next = up->deadline;
        if (next < 0) return nullptr;
        if (next > G->now) G->now = next;
        run_due_events();
    }
}

bool Sim::all_programs_finished() const {
    for (auto &t : tasks) if (t->st != Task::DONE) return false;
    return true;
}

static void to_controller(Task *me, EndReason why) {
    G->end_reason = why;
    if (me) switch_to(me, &G->controller);
    else handoff(&G->controller);
}

static void *task_main(void *arg) {
    Task *t = (Task *)arg;
    t_cur = t;
    park(t);
    if (!G->stopping || true) t->fn();
    t->st = Task::DONE;
    t->wake_pred = nullptr;
    Task *n = pick();
    t_cur = nullptr;
    if (n) handoff(n);
    else to_controller(nullptr, G->all_programs_finished() ? EndReason::ALL_DONE : EndReason::QUIESCENT);
    return nullptr;
}

static void start_thread(Task *t) {
    pthread_attr_t at;
    pthread_attr_init(&at);
    pthread_attr_setstacksize(&at, 2 << 20);
    t->st = Task::RUNNABLE;
    int rc = pthread_create(&t->th, &at, task_main, t);
    pthread_attr_destroy(&at);
    if (rc != 0) { fprintf(stderr, "xsim: pthread_create failed: %d\n", rc); _exit(3); }
}

static bool g_running = false;

Task *Sim::spawn(const std::string &name, std::function<void()> fn, int pid, int netns) {
    auto t = std::make_unique<Task>();
    t->id = (int)tasks.size() + 1;
    t->tid = 100 + t->id;
    t->pid = pid;
    t->netns = netns;
    t->name = name;
    t->fn = std::move(fn);
    Task *raw = t.get();
    tasks.push_back(std::move(t));
    if (g_running) start_thread(raw);
    return raw;
}

EndReason Sim::run() {
    controller.name = "controller";
    g_running = true;
    for (auto &t : tasks) if (t->st == Task::NEW) start_thread(t.get());
    Task *n = pick();
    if (!n) { end_reason = all_programs_finished() ? EndReason::ALL_DONE : EndReason::QUIESCENT; return end_reason; }
    handoff(n);
    park(&controller);
    return end_reason;
}

void Sim::stop_and_join(uint64_t unwind_budget) {
    stopping = true;
    unwinding = true;
    step_budget = steps + unwind_budget;
    if (!all_programs_finished()) {
        Task *n = pick();
        if (n) { handoff(n); park(&controller); }
    }
    if (!all_programs_finished()) {
        // some task is stuck even in stopping mode: threads cannot be joined
        end_reason = EndReason::BUDGET;
        stat["unwind_stuck"] = 1;
        g_running = false;
        unwinding = false;
        return;
    }
    for (auto &t : tasks) pthread_join(t->th, nullptr);
    g_running = false;
    unwinding = false;
}

static void yield_point_inner(const char *what);
void yield_point(const char *what) {
    int e = errno;   // a scheduling decision is not a library call: the caller's errno survives it
    yield_point_inner(what);
    errno = e;
}
static void yield_point_inner(const char *what) {
    Task *me = t_cur;
    if (!me || !G) return;
    G->steps++;
    me->steps++;
    G->now += US;
    run_due_events();
    if (G->steps > G->step_budget) {
        me->st = Task::RUNNABLE;
        me->parked_why = what;
        to_controller(me, EndReason::BUDGET);
        return;
    }
    if (G->yield_p > 0 && G->r_sched.chance(G->yield_p)) {
        me->st = Task::RUNNABLE;
        Task *n = pick();
        if (n && n != me) switch_to(me, n);
    }
}

bool block_until(std::function<bool()> pred, Time deadline, const char *why, bool hard) {
    Task *me = t_cur;
    if (!me || !G) return false;
    for (;;) {
        if (pred()) return true;
        if (G->stopping && !hard) return false;
        if (deadline >= 0 && deadline <= G->now) return false;
        me->st = Task::BLOCKED;
        me->wake_pred = pred;
        me->deadline = deadline;
        me->parked_why = why;
        me->hard_block = hard;
        Task *n = pick();
        if (n == nullptr) {
            to_controller(me, EndReason::QUIESCENT);
        } else if (n != me) {
            switch_to(me, n);
        }
        me->st = Task::RUNNABLE;
        me->wake_pred = nullptr;
        me->deadline = -1;
        me->hard_block = false;
        if (G->steps > G->step_budget && !G->stopping) { to_controller(me, EndReason::BUDGET); }
    }
}

void task_sleep(Time d) {
    Time dl = G->now + d;
    block_until([] { return false; }, dl, "sleep");
}

// ------------------------------------------------------------------ reporting
void Sim::violation(const std::string &oracle, const char *fmt, ...) {
    char buf[4096];
    va_list ap;
    va_start(ap, fmt);
    vsnprintf(buf, sizeof(buf), fmt, ap);
    va_end(ap);
    if (unwinding) return;   // the run is over; what happens while tasks are forced out of their waits is not the system's behaviour
    std::string oid = oracle;
    auto al = alias.find(oracle);
    if (al != alias.end()) oid = al->second;
    if (verbose) fprintf(stderr, "[%lld.%06lld] VIOLATION %s: %s\n", (long long)(now / SEC), (long long)((now % SEC) / US), oid.c_str(), buf);
    if (violations.size() < 16) violations.push_back(Violation{oid, buf});
    stat["violations"]++;
}
void Sim::note(const char *fmt, ...) {
    char buf[1024];
    va_list ap;
    va_start(ap, fmt);
    vsnprintf(buf, sizeof(buf), fmt, ap);
    va_end(ap);
    if (notes.size() < 32) notes.push_back(buf);
    if (verbose) fprintf(stderr, "[%lld.%06lld] NOTE %s\n", (long long)(now / SEC), (long long)((now % SEC) / US), buf);
}
void Sim::logf(const char *fmt, ...) {
    if (!verbose) return;
    char buf[2048];
    va_list ap;
    va_start(ap, fmt);
    vsnprintf(buf, sizeof(buf), fmt, ap);
    va_end(ap);
    Task *t = cur();
    fprintf(stderr, "[%lld.%06lld] %-10s %s\n", (long long)(now / SEC), (long long)((now % SEC) / US), t ? t->name.c_str() : "-", buf);
}
void Sim::trace(uint32_t call, int64_t resclass) {
    Task *t = cur();
    uint64_t v = ((uint64_t)(t ? t->id : 0) << 48) ^ ((uint64_t)call << 32) ^ (uint64_t)(resclass & 0xffffffff);
    trace_hash = (trace_hash ^ v) * 1099511628211ULL;
}

}  // namespace xs
