// Family "conform": conformance of the simulated kernel with the kernel this sandbox runs on (DESIGN.md 4.3).
// One scripted scenario list is executed twice: once through the real system calls (the linker's __real_ symbols, i.e. past the
// seam) and once through the simulated kernel inside a simulation task. Every step records "what:return[:errno][:revents]";
// the two records must be identical. A difference is a defect of the trusted base (HARNESS.kernel_model), never of XCM.
// The scenarios are the kernel behaviours XCM's transports lean on (appendix A): results and errno of connect/accept/send/recv
// around orderly close, reset and refusal, readiness flags reported by poll, SO_ERROR, re-use of a socket after a failed
// connect, bind errors, UNIX SOCK_SEQPACKET boundaries, truncation and back-pressure, epoll registration rules, eventfd and
// timerfd readiness, value checks of the TCP options XCM exposes as attributes.
#include "run.h"
#include <arpa/inet.h>
#include <cerrno>
#include <fcntl.h>
#include <netinet/in.h>
#include <netinet/tcp.h>
#include <poll.h>
#include <sys/epoll.h>
#include <sys/eventfd.h>
#include <sys/socket.h>
#include <sys/timerfd.h>
#include <sys/un.h>
#include <unistd.h>

extern "C" {
int __real_socket(int, int, int);
int __real_bind(int, const struct sockaddr *, socklen_t);
int __real_listen(int, int);
int __real_connect(int, const struct sockaddr *, socklen_t);
int __real_accept4(int, struct sockaddr *, socklen_t *, int);
ssize_t __real_send(int, const void *, size_t, int);
ssize_t __real_recv(int, void *, size_t, int);
int __real_close(int);
int __real_getsockname(int, struct sockaddr *, socklen_t *);
int __real_getsockopt(int, int, int, void *, socklen_t *);
int __real_setsockopt(int, int, int, const void *, socklen_t);
int __real_fcntl(int, int, ...);
int __real_poll(struct pollfd *, nfds_t, int);
int __real_epoll_create1(int);
int __real_epoll_ctl(int, int, int, struct epoll_event *);
int __real_eventfd(unsigned, int);
int __real_timerfd_create(int, int);
int __real_timerfd_settime(int, int, const struct itimerspec *, struct itimerspec *);
int __real_usleep(useconds_t);
}

namespace xs {

struct Api {
    bool sim;
    int socket(int d, int t, int p) { return sim ? k::socket(d, t, p) : __real_socket(d, t, p); }
    int bind(int fd, const sockaddr *sa, socklen_t l) { return sim ? k::bind(fd, sa, l) : __real_bind(fd, sa, l); }
    int listen(int fd, int b) { return sim ? k::listen(fd, b) : __real_listen(fd, b); }
    int connect(int fd, const sockaddr *sa, socklen_t l) { return sim ? k::connect(fd, sa, l) : __real_connect(fd, sa, l); }
    int accept4(int fd, int fl) { return sim ? k::accept4(fd, nullptr, nullptr, fl) : __real_accept4(fd, nullptr, nullptr, fl); }
    ssize_t send(int fd, const void *b, size_t n) { return sim ? k::send(fd, b, n, MSG_NOSIGNAL) : __real_send(fd, b, n, MSG_NOSIGNAL); }
    ssize_t recv(int fd, void *b, size_t n) { return sim ? k::recv(fd, b, n, 0) : __real_recv(fd, b, n, 0); }
    int close(int fd) { return sim ? k::close(fd) : __real_close(fd); }
    int getsockname(int fd, sockaddr *sa, socklen_t *l) { return sim ? k::getsockname(fd, sa, l) : __real_getsockname(fd, sa, l); }
    int getsockopt(int fd, int lv, int n, void *v, socklen_t *l) { return sim ? k::getsockopt(fd, lv, n, v, l) : __real_getsockopt(fd, lv, n, v, l); }
    int setsockopt(int fd, int lv, int n, const void *v, socklen_t l) { return sim ? k::setsockopt(fd, lv, n, v, l) : __real_setsockopt(fd, lv, n, v, l); }
    int nonblock(int fd) { return sim ? k::fcntl(fd, F_SETFL, O_NONBLOCK) : __real_fcntl(fd, F_SETFL, O_NONBLOCK); }
    int poll(pollfd *p, nfds_t n, int t) { return sim ? k::poll(p, n, t) : __real_poll(p, n, t); }
    int epoll_create1(int f) { return sim ? k::epoll_create1(f) : __real_epoll_create1(f); }
    int epoll_ctl(int ep, int op, int fd, epoll_event *ev) { return sim ? k::epoll_ctl(ep, op, fd, ev) : __real_epoll_ctl(ep, op, fd, ev); }
    int eventfd(unsigned v, int f) { return sim ? k::eventfd(v, f) : __real_eventfd(v, f); }
    int timerfd_create(int c, int f) { return sim ? k::timerfd_create(c, f) : __real_timerfd_create(c, f); }
    int timerfd_settime(int fd, int fl, const itimerspec *nv) { return sim ? k::timerfd_settime(fd, fl, nv, nullptr) : __real_timerfd_settime(fd, fl, nv, nullptr); }
    void settle(int ms) { if (sim) task_sleep((Time)ms * MS); else __real_usleep((useconds_t)ms * 1000); }
};

typedef std::vector<std::string> Obs;

static std::string ename(int e) {
    switch (e) {
    case 0: return "0"; case EAGAIN: return "EAGAIN"; case EINPROGRESS: return "EINPROGRESS"; case ECONNREFUSED: return "ECONNREFUSED"; case ECONNRESET: return "ECONNRESET";
    case EPIPE: return "EPIPE"; case ENOTCONN: return "ENOTCONN"; case EINVAL: return "EINVAL"; case EADDRINUSE: return "EADDRINUSE"; case EADDRNOTAVAIL: return "EADDRNOTAVAIL";
    case EEXIST: return "EEXIST"; case ENOENT: return "ENOENT"; case EBADF: return "EBADF"; case EISCONN: return "EISCONN"; case EALREADY: return "EALREADY"; case EMSGSIZE: return "EMSGSIZE";
    case ENOTSOCK: return "ENOTSOCK"; case EAFNOSUPPORT: return "EAFNOSUPPORT"; case EOPNOTSUPP: return "EOPNOTSUPP"; case EDESTADDRREQ: return "EDESTADDRREQ"; case ENOPROTOOPT: return "ENOPROTOOPT";
    case EDOM: return "EDOM"; case ERANGE: return "ERANGE";
    default: return strf("errno%d", e);
    }
}
static void rec(Obs &o, const char *what, long rc) { o.push_back(rc < 0 ? strf("%s=-1/%s", what, ename(errno).c_str()) : strf("%s=%ld", what, rc)); }
static std::string flags(short r) {
    std::string s;
    if (r & POLLIN) s += "IN|"; if (r & POLLOUT) s += "OUT|"; if (r & POLLERR) s += "ERR|"; if (r & POLLHUP) s += "HUP|"; if (r & POLLRDHUP) s += "RDHUP|"; if (r & POLLNVAL) s += "NVAL|";
    return s.empty() ? "-" : s;
}
static void recpoll(Api &a, Obs &o, const char *what, int fd, short ev = POLLIN | POLLOUT) {
    pollfd p = {fd, ev, 0};
    int rc = a.poll(&p, 1, 0);
    o.push_back(strf("%s:poll=%d:%s", what, rc, flags(p.revents).c_str()));
}
static sockaddr_in ip4(const char *ip, uint16_t port) { sockaddr_in sa{}; sa.sin_family = AF_INET; sa.sin_port = htons(port); inet_pton(AF_INET, ip, &sa.sin_addr); return sa; }
static uint16_t port_of(Api &a, int fd) { sockaddr_in sa{}; socklen_t l = sizeof(sa); a.getsockname(fd, (sockaddr *)&sa, &l); return ntohs(sa.sin_port); }
static int so_error(Api &a, int fd) { int e = -1; socklen_t l = sizeof(e); a.getsockopt(fd, SOL_SOCKET, SO_ERROR, &e, &l); return e; }

struct Pair { int l = -1, c = -1, s = -1; uint16_t port = 0; };
static Pair tcp_pair(Api &a, Obs &o, const char *tag) {
    Pair p;
    p.l = a.socket(AF_INET, SOCK_STREAM, 0);
    int one = 1;
    a.setsockopt(p.l, SOL_SOCKET, SO_REUSEADDR, &one, sizeof(one));
    sockaddr_in sa = ip4("127.0.0.1", 0);
    rec(o, strf("%s:bind", tag).c_str(), a.bind(p.l, (sockaddr *)&sa, sizeof(sa)));
    rec(o, strf("%s:listen", tag).c_str(), a.listen(p.l, 8));
    a.nonblock(p.l);
    p.port = port_of(a, p.l);
    p.c = a.socket(AF_INET, SOCK_STREAM, 0);
    a.nonblock(p.c);
    sa = ip4("127.0.0.1", p.port);
    int rc = a.connect(p.c, (sockaddr *)&sa, sizeof(sa));
    o.push_back(strf("%s:connect=%s", tag, rc == 0 || errno == EINPROGRESS ? "ok-or-inprogress" : ename(errno).c_str()));
    a.settle(30);
    recpoll(a, o, strf("%s:client-after-connect", tag).c_str(), p.c);
    o.push_back(strf("%s:SO_ERROR=%s", tag, ename(so_error(a, p.c)).c_str()));
    p.s = a.accept4(p.l, SOCK_NONBLOCK);
    o.push_back(strf("%s:accept=%s", tag, p.s >= 0 ? "fd" : ename(errno).c_str()));
    rec(o, strf("%s:accept-again", tag).c_str(), a.accept4(p.l, SOCK_NONBLOCK));
    return p;
}

static void s_tcp_orderly(Api &a, Obs &o) {
    Pair p = tcp_pair(a, o, "orderly");
    char b[64];
    rec(o, "send5", a.send(p.c, "hello", 5));
    a.settle(20);
    recpoll(a, o, "srv-with-data", p.s);
    rec(o, "recv3", a.recv(p.s, b, 3));
    rec(o, "recv-rest", a.recv(p.s, b, 64));
    rec(o, "recv-empty", a.recv(p.s, b, 64));
    rec(o, "send-x", a.send(p.c, "x", 1));
    rec(o, "client-close", a.close(p.c));
    a.settle(20);
    recpoll(a, o, "srv-after-fin-with-data", p.s, POLLIN | POLLOUT | POLLRDHUP);
    rec(o, "recv-before-eof", a.recv(p.s, b, 64));
    rec(o, "recv-eof", a.recv(p.s, b, 64));
    rec(o, "recv-eof-again", a.recv(p.s, b, 64));
    rec(o, "send-after-fin#1", a.send(p.s, "y", 1));
    a.settle(20);
    recpoll(a, o, "srv-after-rst-in-close-wait", p.s, POLLIN | POLLOUT | POLLRDHUP);
    rec(o, "send-after-fin#2", a.send(p.s, "y", 1));
    rec(o, "recv-after-epipe", a.recv(p.s, b, 64));
    o.push_back(strf("SO_ERROR-after=%s", ename(so_error(a, p.s)).c_str()));
    a.close(p.s); a.close(p.l);
}

static void s_tcp_reset(Api &a, Obs &o) {
    Pair p = tcp_pair(a, o, "reset");
    char b[64];
    rec(o, "srv-send", a.send(p.s, "unread", 6));
    rec(o, "cli-send", a.send(p.c, "abc", 3));
    a.settle(20);
    rec(o, "client-close-with-unread-input", a.close(p.c));
    a.settle(20);
    recpoll(a, o, "srv-after-rst", p.s, POLLIN | POLLOUT | POLLRDHUP);
    rec(o, "recv#1", a.recv(p.s, b, 64));
    rec(o, "recv#2", a.recv(p.s, b, 64));
    rec(o, "recv#3", a.recv(p.s, b, 64));
    rec(o, "send-after", a.send(p.s, "z", 1));
    recpoll(a, o, "srv-later", p.s, POLLIN | POLLOUT | POLLRDHUP);
    a.close(p.s); a.close(p.l);
}

static void s_tcp_refused_and_reuse(Api &a, Obs &o) {
    // a port nobody listens on: bind+close gives a free one
    int t = a.socket(AF_INET, SOCK_STREAM, 0);
    sockaddr_in sa = ip4("127.0.0.1", 0);
    a.bind(t, (sockaddr *)&sa, sizeof(sa));
    uint16_t dead = port_of(a, t);
    a.close(t);
    int c = a.socket(AF_INET, SOCK_STREAM, 0);
    a.nonblock(c);
    char b[8];
    rec(o, "recv-unconnected", a.recv(c, b, 8));
    rec(o, "send-unconnected", a.send(c, "q", 1));
    sa = ip4("127.0.0.1", dead);
    int rc = a.connect(c, (sockaddr *)&sa, sizeof(sa));
    o.push_back(strf("connect-dead=%s", rc == 0 ? "0" : errno == EINPROGRESS ? "EINPROGRESS" : ename(errno).c_str()));
    a.settle(30);
    recpoll(a, o, "after-refusal", c, POLLIN | POLLOUT);
    o.push_back(strf("SO_ERROR#1=%s", ename(so_error(a, c)).c_str()));
    o.push_back(strf("SO_ERROR#2=%s", ename(so_error(a, c)).c_str()));
    recpoll(a, o, "after-SO_ERROR-read", c, POLLIN | POLLOUT);
    // XCM's tconnect: dissolve the association and try the next address on the same socket
    sockaddr unspec{}; unspec.sa_family = AF_UNSPEC;
    rec(o, "connect-AF_UNSPEC", a.connect(c, &unspec, sizeof(unspec)));
    int l = a.socket(AF_INET, SOCK_STREAM, 0);
    sa = ip4("127.0.0.1", 0);
    a.bind(l, (sockaddr *)&sa, sizeof(sa));
    a.listen(l, 4);
    sa = ip4("127.0.0.1", port_of(a, l));
    rc = a.connect(c, (sockaddr *)&sa, sizeof(sa));
    o.push_back(strf("connect-next=%s", rc == 0 || errno == EINPROGRESS ? "ok-or-inprogress" : ename(errno).c_str()));
    a.settle(30);
    recpoll(a, o, "second-attempt", c, POLLIN | POLLOUT);
    o.push_back(strf("SO_ERROR#3=%s", ename(so_error(a, c)).c_str()));
    rc = a.connect(c, (sockaddr *)&sa, sizeof(sa));
    o.push_back(strf("connect-when-connected=%s", rc == 0 ? "0" : ename(errno).c_str()));
    a.close(c); a.close(l);
}

static void s_bind_errors(Api &a, Obs &o) {
    int l = a.socket(AF_INET, SOCK_STREAM, 0);
    int one = 1;
    a.setsockopt(l, SOL_SOCKET, SO_REUSEADDR, &one, sizeof(one));
    sockaddr_in sa = ip4("127.0.0.1", 0);
    rec(o, "bind", a.bind(l, (sockaddr *)&sa, sizeof(sa)));
    rec(o, "bind-twice", a.bind(l, (sockaddr *)&sa, sizeof(sa)));
    a.listen(l, 4);
    uint16_t port = port_of(a, l);
    int c = a.socket(AF_INET, SOCK_STREAM, 0);
    a.setsockopt(c, SOL_SOCKET, SO_REUSEADDR, &one, sizeof(one));
    sa = ip4("127.0.0.1", port);
    rec(o, "bind-listening-port", a.bind(c, (sockaddr *)&sa, sizeof(sa)));
    sa = ip4("10.9.9.9", 0);
    rec(o, "bind-foreign-address", a.bind(c, (sockaddr *)&sa, sizeof(sa)));
    sa = ip4("127.0.0.1", 0);
    rec(o, "bind-port0", a.bind(c, (sockaddr *)&sa, sizeof(sa)));
    rec(o, "bind-port0-again", a.bind(c, (sockaddr *)&sa, sizeof(sa)));
    sockaddr_in6 s6{}; s6.sin6_family = AF_INET6;
    int d = a.socket(AF_INET, SOCK_STREAM, 0);
    rec(o, "bind-v6-addr-on-v4-socket", a.bind(d, (sockaddr *)&s6, sizeof(s6)));
    rec(o, "listen-unbound", a.listen(d, 1));
    a.close(l); a.close(c); a.close(d);
}

static void s_tcp_options(Api &a, Obs &o) {
    int s = a.socket(AF_INET, SOCK_STREAM, 0);
    auto set = [&](const char *what, int lv, int n, int v) { rec(o, what, a.setsockopt(s, lv, n, &v, sizeof(v))); };
    auto get = [&](const char *what, int lv, int n) { int v = -7; socklen_t l = sizeof(v); int rc = a.getsockopt(s, lv, n, &v, &l); o.push_back(rc < 0 ? strf("%s=-1/%s", what, ename(errno).c_str()) : strf("%s=%d", what, v)); };
    set("keepidle=0", IPPROTO_TCP, TCP_KEEPIDLE, 0);
    set("keepidle=32768", IPPROTO_TCP, TCP_KEEPIDLE, 32768);
    set("keepidle=7", IPPROTO_TCP, TCP_KEEPIDLE, 7);
    get("get-keepidle", IPPROTO_TCP, TCP_KEEPIDLE);
    set("keepintvl=0", IPPROTO_TCP, TCP_KEEPINTVL, 0);
    set("keepintvl=3", IPPROTO_TCP, TCP_KEEPINTVL, 3);
    get("get-keepintvl", IPPROTO_TCP, TCP_KEEPINTVL);
    set("keepcnt=0", IPPROTO_TCP, TCP_KEEPCNT, 0);
    set("keepcnt=128", IPPROTO_TCP, TCP_KEEPCNT, 128);
    set("keepcnt=127", IPPROTO_TCP, TCP_KEEPCNT, 127);
    get("get-keepcnt", IPPROTO_TCP, TCP_KEEPCNT);
    set("user_timeout=-1", IPPROTO_TCP, TCP_USER_TIMEOUT, -1);
    set("user_timeout=5000", IPPROTO_TCP, TCP_USER_TIMEOUT, 5000);
    get("get-user_timeout", IPPROTO_TCP, TCP_USER_TIMEOUT);
    set("syncnt=0", IPPROTO_TCP, TCP_SYNCNT, 0);
    set("syncnt=128", IPPROTO_TCP, TCP_SYNCNT, 128);
    set("syncnt=3", IPPROTO_TCP, TCP_SYNCNT, 3);
    set("keepalive=1", SOL_SOCKET, SO_KEEPALIVE, 1);
    get("get-keepalive", SOL_SOCKET, SO_KEEPALIVE);
    set("nodelay=1", IPPROTO_TCP, TCP_NODELAY, 1);
    get("get-nodelay", IPPROTO_TCP, TCP_NODELAY);
    a.close(s);
}

static sockaddr_un un_abs(const char *name, socklen_t *len) {
    sockaddr_un sa{}; sa.sun_family = AF_UNIX;
    size_t n = strlen(name);
    memcpy(sa.sun_path + 1, name, n);
    *len = (socklen_t)(offsetof(sockaddr_un, sun_path) + 1 + n);
    return sa;
}
static void s_unix_seqpacket(Api &a, Obs &o, const std::string &uniq) {
    socklen_t sl;
    std::string name = "xsim-conform-" + uniq;
    sockaddr_un sa = un_abs(name.c_str(), &sl);
    int l = a.socket(AF_UNIX, SOCK_SEQPACKET, 0);
    rec(o, "ux:bind", a.bind(l, (sockaddr *)&sa, sl));
    int l2 = a.socket(AF_UNIX, SOCK_SEQPACKET, 0);
    rec(o, "ux:bind-name-in-use", a.bind(l2, (sockaddr *)&sa, sl));
    a.close(l2);
    rec(o, "ux:listen", a.listen(l, 1));
    a.nonblock(l);
    rec(o, "ux:accept-none", a.accept4(l, SOCK_NONBLOCK));
    int c = a.socket(AF_UNIX, SOCK_SEQPACKET, 0);
    a.nonblock(c);
    rec(o, "ux:connect", a.connect(c, (sockaddr *)&sa, sl));
    recpoll(a, o, "ux:listener-with-pending", l, POLLIN);
    int c2 = a.socket(AF_UNIX, SOCK_SEQPACKET, 0), c3 = a.socket(AF_UNIX, SOCK_SEQPACKET, 0);
    a.nonblock(c2); a.nonblock(c3);
    rec(o, "ux:connect#2(backlog 1)", a.connect(c2, (sockaddr *)&sa, sl));
    rec(o, "ux:connect#3(backlog 1)", a.connect(c3, (sockaddr *)&sa, sl));
    int s = a.accept4(l, SOCK_NONBLOCK);
    o.push_back(strf("ux:accept=%s", s >= 0 ? "fd" : ename(errno).c_str()));
    char b[64];
    rec(o, "ux:send3", a.send(c, "abc", 3));
    rec(o, "ux:send5", a.send(c, "defgh", 5));
    rec(o, "ux:send0", a.send(c, "", 0));
    rec(o, "ux:send1", a.send(c, "i", 1));
    recpoll(a, o, "ux:srv-with-messages", s);
    rec(o, "ux:recv-whole", a.recv(s, b, 64));
    rec(o, "ux:recv-truncated(cap 2 of 5)", a.recv(s, b, 2));
    rec(o, "ux:recv-empty-message", a.recv(s, b, 64));
    rec(o, "ux:recv-next-unaffected", a.recv(s, b, 64));
    rec(o, "ux:recv-none", a.recv(s, b, 64));
    rec(o, "ux:client-close", a.close(c));
    recpoll(a, o, "ux:srv-after-peer-close", s, POLLIN | POLLOUT | POLLRDHUP);
    rec(o, "ux:recv-eof", a.recv(s, b, 64));
    rec(o, "ux:send-after-peer-close", a.send(s, "x", 1));
    a.close(s);
    socklen_t sl2;
    sockaddr_un nb = un_abs((name + "-nobody").c_str(), &sl2);
    int c4 = a.socket(AF_UNIX, SOCK_SEQPACKET, 0);
    rec(o, "ux:connect-nobody", a.connect(c4, (sockaddr *)&nb, sl2));
    a.close(c4); a.close(c2); a.close(c3);
    rec(o, "ux:listener-close", a.close(l));
    int c5 = a.socket(AF_UNIX, SOCK_SEQPACKET, 0);
    rec(o, "ux:connect-after-listener-closed", a.connect(c5, (sockaddr *)&sa, sl));
    a.close(c5);
}

static void s_unix_backpressure(Api &a, Obs &o, const std::string &uniq) {
    socklen_t sl;
    std::string name = "xsim-conform-bp-" + uniq;
    sockaddr_un sa = un_abs(name.c_str(), &sl);
    int l = a.socket(AF_UNIX, SOCK_SEQPACKET, 0);
    a.bind(l, (sockaddr *)&sa, sl);
    a.listen(l, 2);
    int c = a.socket(AF_UNIX, SOCK_SEQPACKET, 0);
    a.nonblock(c);
    a.connect(c, (sockaddr *)&sa, sl);
    int s = a.accept4(l, SOCK_NONBLOCK);
    // only the class of the outcome is comparable (the queue limit is a tunable): some sends succeed, then EAGAIN, and a receive makes room again
    std::string big(30000, 'm');
    int ok = 0, e = 0;
    for (int i = 0; i < 4000; i++) { if (a.send(c, big.data(), big.size()) < 0) { e = errno; break; } ok++; }
    o.push_back(strf("ux:fill=%s-after-%s", ename(e).c_str(), ok > 0 ? "some" : "none"));
    recpoll(a, o, "ux:sender-when-full", c, POLLOUT);
    std::unique_ptr<char[]> b(new char[70000]);
    rec(o, "ux:recv-one", a.recv(s, b.get(), 70000));
    for (int i = 1; i < ok; i++) a.recv(s, b.get(), 70000);
    recpoll(a, o, "ux:sender-after-drain", c, POLLOUT);
    rec(o, "ux:send-after-drain", a.send(c, "k", 1));
    std::string huge(300000, 'h');
    rec(o, "ux:send-300000", a.send(c, huge.data(), huge.size()));
    a.close(c); a.close(s); a.close(l);
}

static void s_epoll(Api &a, Obs &o) {
    int ep = a.epoll_create1(0);
    o.push_back(strf("epoll_create1=%s", ep >= 0 ? "fd" : ename(errno).c_str()));
    int ev0 = a.eventfd(0, EFD_NONBLOCK), ev1 = a.eventfd(1, EFD_NONBLOCK);
    recpoll(a, o, "eventfd(0)", ev0, POLLIN);
    recpoll(a, o, "eventfd(1)", ev1, POLLIN);
    epoll_event ev{}; ev.events = EPOLLIN; ev.data.fd = ev0;
    rec(o, "add-ev0", a.epoll_ctl(ep, EPOLL_CTL_ADD, ev0, &ev));
    rec(o, "add-ev0-again", a.epoll_ctl(ep, EPOLL_CTL_ADD, ev0, &ev));
    rec(o, "mod-ev1-unregistered", a.epoll_ctl(ep, EPOLL_CTL_MOD, ev1, &ev));
    rec(o, "del-ev1-unregistered", a.epoll_ctl(ep, EPOLL_CTL_DEL, ev1, nullptr));
    recpoll(a, o, "epoll-nothing-ready", ep, POLLIN);
    ev.data.fd = ev1;
    rec(o, "add-ev1", a.epoll_ctl(ep, EPOLL_CTL_ADD, ev1, &ev));
    recpoll(a, o, "epoll-one-ready", ep, POLLIN);
    ev.events = 0;
    rec(o, "mod-ev1-events0", a.epoll_ctl(ep, EPOLL_CTL_MOD, ev1, &ev));
    recpoll(a, o, "epoll-after-mod0", ep, POLLIN);
    ev.events = EPOLLIN;
    rec(o, "mod-ev1-in", a.epoll_ctl(ep, EPOLL_CTL_MOD, ev1, &ev));
    recpoll(a, o, "epoll-ready-again", ep, POLLIN);
    rec(o, "close-ev1", a.close(ev1));
    recpoll(a, o, "epoll-after-close-of-registered", ep, POLLIN);
    rec(o, "del-closed", a.epoll_ctl(ep, EPOLL_CTL_DEL, ev1, nullptr));
    rec(o, "add-self", a.epoll_ctl(ep, EPOLL_CTL_ADD, ep, &ev));
    rec(o, "add-bad-fd", a.epoll_ctl(ep, EPOLL_CTL_ADD, 987654, &ev));
    // EPOLLOUT on a fresh connected pair, level-triggered
    a.close(ev0); a.close(ep);
}

static void s_timerfd(Api &a, Obs &o) {
    int t = a.timerfd_create(CLOCK_MONOTONIC, TFD_NONBLOCK);
    o.push_back(strf("timerfd_create=%s", t >= 0 ? "fd" : ename(errno).c_str()));
    recpoll(a, o, "timer-unarmed", t, POLLIN);
    itimerspec its{}; its.it_value.tv_nsec = 30 * 1000 * 1000;
    rec(o, "arm-30ms", a.timerfd_settime(t, 0, &its));
    recpoll(a, o, "timer-before", t, POLLIN);
    a.settle(60);
    recpoll(a, o, "timer-after", t, POLLIN);
    a.settle(20);
    recpoll(a, o, "timer-stays-readable", t, POLLIN);
    its.it_value.tv_nsec = 0; its.it_value.tv_sec = 5;
    rec(o, "rearm-5s", a.timerfd_settime(t, 0, &its));
    recpoll(a, o, "timer-after-rearm", t, POLLIN);
    its.it_value.tv_sec = 0;
    rec(o, "disarm", a.timerfd_settime(t, 0, &its));
    a.settle(10);
    recpoll(a, o, "timer-disarmed", t, POLLIN);
    its.it_value.tv_nsec = 5 * 1000 * 1000;
    rec(o, "arm-5ms", a.timerfd_settime(t, 0, &its));
    a.settle(30);
    recpoll(a, o, "timer-fired", t, POLLIN);
    its.it_value.tv_nsec = 0;
    rec(o, "disarm-after-fire", a.timerfd_settime(t, 0, &its));
    recpoll(a, o, "timer-fired-then-disarmed", t, POLLIN);
    a.close(t);
}

static void s_listen_close(Api &a, Obs &o) {
    // a client of a listener that goes away before accepting
    Pair p;
    p.l = a.socket(AF_INET, SOCK_STREAM, 0);
    sockaddr_in sa = ip4("127.0.0.1", 0);
    a.bind(p.l, (sockaddr *)&sa, sizeof(sa));
    a.listen(p.l, 4);
    p.port = port_of(a, p.l);
    p.c = a.socket(AF_INET, SOCK_STREAM, 0);
    a.nonblock(p.c);
    sa = ip4("127.0.0.1", p.port);
    a.connect(p.c, (sockaddr *)&sa, sizeof(sa));
    a.settle(20);
    rec(o, "send-into-unaccepted", a.send(p.c, "early", 5));
    rec(o, "listener-close", a.close(p.l));
    a.settle(20);
    recpoll(a, o, "client-after-listener-close", p.c, POLLIN | POLLOUT | POLLRDHUP);
    char b[16];
    rec(o, "client-recv", a.recv(p.c, b, 16));
    rec(o, "client-send", a.send(p.c, "late", 4));
    a.close(p.c);
}

static void s_epoll_tcp(Api &a, Obs &o) {
    // what XCM does: the socket's descriptors sit in an epoll instance and the application polls that instance
    int ep = a.epoll_create1(0);
    int t = a.socket(AF_INET, SOCK_STREAM, 0);
    sockaddr_in sa = ip4("127.0.0.1", 0);
    a.bind(t, (sockaddr *)&sa, sizeof(sa));
    uint16_t dead = port_of(a, t);
    a.close(t);
    int c = a.socket(AF_INET, SOCK_STREAM, 0);
    a.nonblock(c);
    epoll_event ev{}; ev.events = EPOLLOUT; ev.data.fd = c;
    rec(o, "add-fresh-socket-OUT", a.epoll_ctl(ep, EPOLL_CTL_ADD, c, &ev));
    recpoll(a, o, "epoll-fresh-unconnected-socket", ep, POLLIN);
    sa = ip4("127.0.0.1", dead);
    a.connect(c, (sockaddr *)&sa, sizeof(sa));
    a.settle(30);
    recpoll(a, o, "epoll-after-refusal(OUT registered)", ep, POLLIN);
    ev.events = 0;
    a.epoll_ctl(ep, EPOLL_CTL_MOD, c, &ev);
    recpoll(a, o, "epoll-after-refusal(nothing registered: ERR/HUP still reported)", ep, POLLIN);
    so_error(a, c);
    recpoll(a, o, "epoll-after-SO_ERROR-read(nothing registered)", ep, POLLIN);
    a.close(c);
    // established pair: IN registered, nothing to read; then data; then FIN; then events 0
    Pair p = tcp_pair(a, o, "ep");
    ev.events = EPOLLIN; ev.data.fd = p.s;
    rec(o, "add-srv-IN", a.epoll_ctl(ep, EPOLL_CTL_ADD, p.s, &ev));
    recpoll(a, o, "epoll-idle-connection", ep, POLLIN);
    a.send(p.c, "d", 1);
    a.settle(20);
    recpoll(a, o, "epoll-data", ep, POLLIN);
    char b[8];
    a.recv(p.s, b, 8);
    recpoll(a, o, "epoll-drained", ep, POLLIN);
    ev.events = EPOLLOUT;
    a.epoll_ctl(ep, EPOLL_CTL_MOD, p.s, &ev);
    recpoll(a, o, "epoll-OUT-on-writable", ep, POLLIN);
    ev.events = 0;
    a.epoll_ctl(ep, EPOLL_CTL_MOD, p.s, &ev);
    a.close(p.c);
    a.settle(20);
    recpoll(a, o, "epoll-FIN-with-events0", ep, POLLIN);
    ev.events = EPOLLIN;
    a.epoll_ctl(ep, EPOLL_CTL_MOD, p.s, &ev);
    recpoll(a, o, "epoll-FIN-with-IN", ep, POLLIN);
    a.close(p.s); a.close(p.l); a.close(ep);
}

static void s_tcp_backpressure(Api &a, Obs &o) {
    Pair p = tcp_pair(a, o, "bp");
    std::string chunk(16384, 'c');
    long total = 0; int e = 0;
    for (int i = 0; i < 100000; i++) { ssize_t n = a.send(p.c, chunk.data(), chunk.size()); if (n < 0) { e = errno; break; } total += n; }
    o.push_back(strf("fill=%s-after-%s", ename(e).c_str(), total > 0 ? "some" : "none"));
    recpoll(a, o, "sender-full", p.c, POLLOUT);
    std::unique_ptr<char[]> b(new char[1 << 20]);
    long got = 0;
    for (int i = 0; i < 100000 && got < total; i++) { ssize_t n = a.recv(p.s, b.get(), 1 << 20); if (n > 0) got += n; else a.settle(5); }
    o.push_back(strf("drained=%s", got == total ? "all" : "not-all"));
    a.settle(30);
    recpoll(a, o, "sender-after-drain", p.c, POLLOUT);
    rec(o, "recv-empty-after-drain", a.recv(p.s, b.get(), 16));
    a.close(p.c); a.close(p.s); a.close(p.l);
}

static void s_accept_after_reset(Api &a, Obs &o) {
    int l = a.socket(AF_INET, SOCK_STREAM, 0);
    sockaddr_in sa = ip4("127.0.0.1", 0);
    a.bind(l, (sockaddr *)&sa, sizeof(sa));
    a.listen(l, 4);
    a.nonblock(l);
    int c = a.socket(AF_INET, SOCK_STREAM, 0);
    a.nonblock(c);
    sa = ip4("127.0.0.1", port_of(a, l));
    a.connect(c, (sockaddr *)&sa, sizeof(sa));
    a.settle(20);
    a.send(c, "bye", 3);
    struct linger lg = {1, 0};
    rec(o, "SO_LINGER{1,0}", a.setsockopt(c, SOL_SOCKET, SO_LINGER, &lg, sizeof(lg)));
    a.settle(20);
    rec(o, "abortive-close", a.close(c));
    a.settle(20);
    recpoll(a, o, "listener", l, POLLIN);
    int s = a.accept4(l, SOCK_NONBLOCK);
    o.push_back(strf("accept-of-reset-connection=%s", s >= 0 ? "fd" : ename(errno).c_str()));
    if (s >= 0) {
        char b[8];
        recpoll(a, o, "accepted", s, POLLIN | POLLOUT);
        rec(o, "recv#1", a.recv(s, b, 8));
        rec(o, "recv#2", a.recv(s, b, 8));
        rec(o, "send", a.send(s, "x", 1));
        a.close(s);
    }
    a.close(l);
}

struct Scen { const char *name; std::function<void(Api &, Obs &, const std::string &)> fn; };
static std::vector<Scen> &scenarios() {
    static std::vector<Scen> v = {
        {"tcp_orderly_close", [](Api &a, Obs &o, const std::string &) { s_tcp_orderly(a, o); }},
        {"tcp_reset", [](Api &a, Obs &o, const std::string &) { s_tcp_reset(a, o); }},
        {"tcp_refused_and_socket_reuse", [](Api &a, Obs &o, const std::string &) { s_tcp_refused_and_reuse(a, o); }},
        {"tcp_listener_closes_first", [](Api &a, Obs &o, const std::string &) { s_listen_close(a, o); }},
        {"bind_errors", [](Api &a, Obs &o, const std::string &) { s_bind_errors(a, o); }},
        {"tcp_option_values", [](Api &a, Obs &o, const std::string &) { s_tcp_options(a, o); }},
        {"unix_seqpacket", [](Api &a, Obs &o, const std::string &u) { s_unix_seqpacket(a, o, u); }},
        {"unix_backpressure", [](Api &a, Obs &o, const std::string &u) { s_unix_backpressure(a, o, u); }},
        {"epoll_eventfd", [](Api &a, Obs &o, const std::string &) { s_epoll(a, o); }},
        {"timerfd", [](Api &a, Obs &o, const std::string &) { s_timerfd(a, o); }},
        {"epoll_over_tcp", [](Api &a, Obs &o, const std::string &) { s_epoll_tcp(a, o); }},
        {"tcp_backpressure", [](Api &a, Obs &o, const std::string &) { s_tcp_backpressure(a, o); }},
        {"accept_after_reset", [](Api &a, Obs &o, const std::string &) { s_accept_after_reset(a, o); }},
    };
    return v;
}

static std::map<std::string, Obs> *sim_obs = nullptr;

static void gen(uint64_t seed, const std::string &prop, Plan &plan) {
    Rng r(mix64(seed, 0xC0F0));
    plan.family = "conform";
    plan.prop = prop;
    plan.seed = seed;
    gen_common_knobs(r, plan, false);
    auto &p = plan.p;
    p["tcp_buf"] = 65536;
    p["seg_policy"] = 0;
    p["latency_us"] = 50;
    p["jitter_us"] = 0;
    p["yield_pm"] = 0;
    p["debug_log"] = 0;
    p["step_budget"] = 2000000;
}

static void setup(const Plan &) {
    delete sim_obs;
    sim_obs = new std::map<std::string, Obs>();
    G->spawn("conform", [] {
        Api a{true};
        for (auto &s : scenarios()) { Obs o; s.fn(a, o, "sim"); (*sim_obs)[s.name] = o; }
    }, 1, 0);
}

static void after_unwind(const Plan &) {
    Api a{false};
    int differing = 0;
    for (auto &s : scenarios()) {
        Obs real;
        s.fn(a, real, strf("%d", (int)getpid()));
        const Obs &sim = (*sim_obs)[s.name];
        size_t n = std::max(real.size(), sim.size());
        for (size_t i = 0; i < n; i++) {
            std::string r = i < real.size() ? real[i] : "(missing)", m = i < sim.size() ? sim[i] : "(missing)";
            G->count("probe.conformance_steps");
            if (r != m) {
                differing++;
                G->violation("HARNESS.kernel_model", "scenario %s, step %zu: this kernel says '%s', the simulated kernel says '%s'", s.name, i, r.c_str(), m.c_str());
            }
        }
    }
    G->stat["probe.conformance_differences"] = differing;
}

static void finalize(const Plan &, EndReason r) {
    if (r != EndReason::ALL_DONE) G->violation("HARNESS.kernel_model", "the scenario list did not run to its end inside the simulation");
    g_run_nontrivial = true;
}

static struct Reg_conform { Reg_conform() { register_family(Family{"conform", gen, setup, finalize, after_unwind, nullptr}); } } reg;

}  // namespace xs
