// Harness-side wrappers around the XCM API: every call made by application tasks goes through
// here so that the monitors (C05 may-sleep, C08 attribution, C16 fd stability, C17 ledger) see it.
#pragma once
#include "kernel.h"
extern "C" {
#include <xcm.h>
#include <xcm_attr.h>
#include <xcm_attr_map.h>
#include <xcm_addr.h>
}

namespace xs {

struct Msg { std::string data; };

struct XSock {
    struct xcm_socket *s = nullptr;
    int idx = 0;
    std::string label;
    bool is_server = false;
    bool nonblocking = false;
    bool bytestream = false;
    bool closed = false;
    bool closing = false;      // xcm_close has been entered
    uint64_t refused_sends = 0;    // xcm_send calls refused with EAGAIN so far
    int xfd = -1;              // xcm_fd() as first seen
    XSock *peer = nullptr;     // paired endpoint (other end of the connection), when known
    XSock *parent = nullptr;   // server socket for accepted connections
    std::vector<std::shared_ptr<KFile>> kfiles;  // kernel sockets created on behalf of this socket (for pairing)
    bool close_truncated = false;  // xcm_close could not write everything it wanted (e.g. TLS close_notify)
    bool saw_epipe = false;    // a send/finish reported EPIPE (closed learnt by writing)
    // delivery model
    std::deque<std::string> out_fifo;   // messages accepted from the app (send returned success), not yet received by peer
    std::string out_stream;             // byte-stream: accepted bytes not yet received by the peer
    // a send that has been invoked but has not returned yet (delivery may overtake the return)
    bool send_inflight = false;
    std::string inflight;          // the offered message / bytes
    size_t inflight_taken = 0;     // how much of it the peer has already received
    std::string refused_offer;     // byte-stream: the bytes of the last refused (EAGAIN) offer
    int refusals_in_row = 0;       // byte-stream: consecutive xcm_send calls refused with EAGAIN
    std::string failed_offer;      // byte-stream: bytes of a send that failed because the connection failed; a prefix may have been transmitted
    std::string ghost;             // byte-stream: bytes of a refused send that reached the peer anyway (known btls defect); skipped when re-offered
    bool closed_after_flush = false;   // closed gracefully: every accepted message had been flushed (finish==0 / blocking)
    uint64_t sent_ok = 0, recv_ok = 0;
    uint64_t stream_sent = 0, stream_recv = 0;
    // C17 ledger
    int64_t led_from_app_msgs = 0, led_from_app_bytes = 0, led_to_app_msgs = 0, led_to_app_bytes = 0;
    int64_t last_cnt[8] = {0, 0, 0, 0, 0, 0, 0, 0};
    bool cnt_valid = false;
    int64_t final_cnt[8] = {0, 0, 0, 0, 0, 0, 0, 0};   // counters read immediately before xcm_close (C17 cross-endpoint agreement)
    bool final_valid = false;
    uint64_t cnt_calls = 0;        // counter-check opportunities seen (checks are thinned out after the first 150)
    // terminal-state automaton (C06)
    bool saw_eof = false;          // a receive returned 0
    int term_errno = 0;            // first terminal errno reported by any call
    bool terminal() const { return saw_eof || term_errno != 0; }
    int last_send_errno = 0;
    bool conn_failed_send = false; // some xcm_send failed with a connection-level errno
    bool finish_ok_since_send = false;
    bool last_recv_eagain = false;
    uint64_t kmut_at_last_recv_eagain = 0;
    bool ignore_delivery = false;  // endpoint whose oracles are switched off (e.g. the crashing side)
    bool dying = false;            // wire-cut fault: this end's host "dies" - its own calls are not judged, what it had accepted still identifies the peer's receives
    std::vector<size_t> sent_lens; // lengths of the accepted messages, in order (messaging)
    bool is_tcp_based = false;
    bool is_tls = false;           // tls / btls (utls reports the transport it ended up on)
};

struct XOpts {
    bool check_refusal = false;    // C03: a refused send must leave counters untouched
    bool check_counters = false;   // read all counters after every call (C17)
    bool check_fd_stable = true;   // C16: xcm_fd never changes
    bool check_ready_at_await = false;   // C16: RECEIVABLE awaited while the kernel socket is readable => xcm_fd readable at once (conv family)
    bool judge_unprovoked = false; // runs without injected connection faults: a connection that reports a terminal errno while its peer is alive and well has broken by itself
};
extern XOpts XO;

// all XSock records of the run (owned)
std::vector<std::unique_ptr<XSock>> &xsocks();
void xapi_reset();

XSock *x_connect(const std::string &addr, struct xcm_attr_map *attrs, bool nonblocking, const std::string &label);
XSock *x_server(const std::string &addr, struct xcm_attr_map *attrs, bool nonblocking, const std::string &label);
XSock *x_accept(XSock *srv, struct xcm_attr_map *attrs, const std::string &label);
int x_send(XSock *x, const void *buf, size_t len);
int x_receive(XSock *x, void *buf, size_t cap);
int x_finish(XSock *x);
int x_await(XSock *x, int cond);
int x_fd(XSock *x);
int x_close(XSock *x);
int x_set_blocking(XSock *x, bool blocking);
// attribute access with the monitors on
int x_attr_get(XSock *x, const char *name, enum xcm_attr_type *type, void *buf, size_t cap);
int x_attr_get_int64(XSock *x, const char *name, int64_t *v);
int x_attr_set(XSock *x, const char *name, enum xcm_attr_type type, const void *val, size_t len);

// Wait in the documented way: poll(xcm_fd, POLLIN, -1). Returns false when the run is stopping.
bool x_wait(XSock *x);

// pairing through the simulated kernel (which descriptor talks to which)
std::shared_ptr<KFile> x_kernel_conn(XSock *x);
XSock *x_find_peer(XSock *x);
void x_pair(XSock *a, XSock *b);

// counters (C17)
bool x_read_counters(XSock *x, int64_t out[8]);
void x_check_counters(XSock *x, const char *after);

// scoped marker "library code is running on behalf of socket x"
struct ApiScope {
    Task *t; int saved_nb; const char *saved_name; void *saved_sock;
    ApiScope(const char *name, XSock *x, bool nonblocking);
    ~ApiScope();
};

// deterministic message content
std::string make_payload(uint64_t seed, int conn, int dir, int index, size_t len);

}  // namespace xs
