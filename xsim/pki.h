// In-process deterministic PKI (libcrypto): roots, intermediates, leaves, CRLs; deterministic RNG.
#pragma once
#include "sim.h"
#include <openssl/x509.h>
#include <openssl/evp.h>

namespace xs {

void det_rand_install();            // route OpenSSL's RAND through a seeded PRNG
void det_rand_seed(uint64_t seed);

struct CertSpec {
    std::string cn;
    std::vector<std::string> san_dns, san_email, san_dir;
    bool is_ca = false;
    int64_t not_before = -86400;     // seconds relative to the simulated epoch
    int64_t not_after = 365 * 86400;
    int eku = 0;                     // 0 none, 1 clientAuth, 2 serverAuth, 3 both, 4 codeSigning (neither)
    bool ski = true;
    long serial = 1;
};
struct Cert {
    X509 *x = nullptr;
    EVP_PKEY *key = nullptr;
    std::string cert_pem, key_pem;
    std::string ski_hex;
    CertSpec spec;
    const Cert *issuer = nullptr;
    ~Cert();
    Cert() {}
    Cert(const Cert &) = delete;
};
std::unique_ptr<Cert> make_cert(const CertSpec &spec, const Cert *issuer /* nullptr: self-signed */);
std::string make_crl(const Cert &issuer, const std::vector<long> &revoked_serials, int64_t this_update, int64_t next_update);

// a small fixed PKI shared by the families that only need "working TLS"
struct BasicPki {
    std::unique_ptr<Cert> root, leaf_a, leaf_b, other_root, other_leaf;
};
const BasicPki &basic_pki();
int64_t sim_epoch_seconds();

}  // namespace xs
