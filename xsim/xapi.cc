#include "xapi.h"
#include <cerrno>

namespace xs {

XOpts XO;
static std::vector<std::unique_ptr<XSock>> *g_socks = nullptr;
std::vector<std::unique_ptr<XSock>> &xsocks() {
    if (!g_socks) g_socks = new std::vector<std::unique_ptr<XSock>>();
    return *g_socks;
}
void xapi_reset() { xsocks().clear(); XO = XOpts(); }

ApiScope::ApiScope(const char *name, XSock *x, bool nonblocking) {
    t = cur();
    saved_nb = t->api_nonblocking;
    saved_name = t->api_name;
    saved_sock = t->api_sock;
    if (t->api_depth++ == 0) { t->api_eagains = 0; t->api_fault_errno = 0; }
    t->api_nonblocking = nonblocking;
    t->api_name = name;
    t->api_sock = x;
}
ApiScope::~ApiScope() {
    t->api_depth--;
    t->api_nonblocking = saved_nb;
    t->api_name = saved_name;
    t->api_sock = saved_sock;
}

std::string make_payload(uint64_t seed, int conn, int dir, int index, size_t len) {
    std::string s(len, '\0');
    Rng r(mix64(seed, ((uint64_t)conn << 40) ^ ((uint64_t)dir << 32) ^ (uint64_t)index));
    for (size_t i = 0; i < len; i += 8) {
        uint64_t v = r.next();
        memcpy(&s[i], &v, std::min<size_t>(8, len - i));
    }
    // self-identifying head: direction and index, when there is room
    if (len >= 6) { s[0] = (char)('A' + dir); s[1] = (char)conn; uint32_t ix = (uint32_t)index; memcpy(&s[2], &ix, 4); }
    return s;
}

static XSock *new_xsock(const std::string &label) {
    auto x = std::make_unique<XSock>();
    x->idx = (int)xsocks().size();
    x->label = label;
    XSock *r = x.get();
    xsocks().push_back(std::move(x));
    return r;
}

static bool attr_wants_nonblocking(struct xcm_attr_map *attrs, bool def) {
    if (!attrs) return def;
    const bool *b = xcm_attr_map_get_bool(attrs, "xcm.blocking");
    return b ? !*b : def;
}

static void post_create(XSock *x) {
    char tp[64] = "";
    {
        ApiScope a("xcm_attr_get", x, x->nonblocking);
        xcm_attr_get_str(x->s, "xcm.transport", tp, sizeof(tp));
        char svc[32] = "";
        if (xcm_attr_get_str(x->s, "xcm.service", svc, sizeof(svc)) > 0) x->bytestream = strcmp(svc, "bytestream") == 0;
    }
    std::string t = tp;
    x->is_tcp_based = t == "tcp" || t == "tls" || t == "btcp" || t == "btls";
    x->is_tls = t == "tls" || t == "btls";
    if (x->nonblocking) {
        ApiScope a("xcm_fd", x, true);
        x->xfd = xcm_fd(x->s);
    }
    for (auto &kv : K->fdt[1])
        if (kv.second.owner == x && (kv.second.f->kind == KFile::TCP || kv.second.f->kind == KFile::UNIX)) x->kfiles.push_back(kv.second.f);
}

XSock *x_connect(const std::string &addr, struct xcm_attr_map *attrs, bool nonblocking, const std::string &label) {
    XSock *x = new_xsock(label);
    x->nonblocking = attr_wants_nonblocking(attrs, nonblocking);
    struct xcm_attr_map *m = attrs ? xcm_attr_map_clone(attrs) : xcm_attr_map_create();
    if (!xcm_attr_map_exists(m, "xcm.blocking")) xcm_attr_map_add_bool(m, "xcm.blocking", !nonblocking);
    if (!attrs && G->plan.P("plain_api")) {
        ApiScope a("xcm_connect", x, x->nonblocking);
        x->s = xcm_connect(addr.c_str(), nonblocking ? XCM_NONBLOCK : 0);
    } else {
        ApiScope a("xcm_connect_a", x, x->nonblocking);
        x->s = xcm_connect_a(addr.c_str(), m);
    }
    int e = errno;
    xcm_attr_map_destroy(m);
    G->logf("xcm_connect_a(%s) = %s%s", addr.c_str(), x->s ? "ok" : "NULL ", x->s ? "" : strerror(e));
    if (!x->s) { x->closed = true; x->term_errno = e; errno = e; return x; }
    post_create(x);
    errno = e;
    return x;
}

XSock *x_server(const std::string &addr, struct xcm_attr_map *attrs, bool nonblocking, const std::string &label) {
    XSock *x = new_xsock(label);
    x->is_server = true;
    x->nonblocking = attr_wants_nonblocking(attrs, nonblocking);
    struct xcm_attr_map *m = attrs ? xcm_attr_map_clone(attrs) : xcm_attr_map_create();
    if (!xcm_attr_map_exists(m, "xcm.blocking")) xcm_attr_map_add_bool(m, "xcm.blocking", !nonblocking);
    {
        // xcm_server(_a) is outside C05 (documented synchronous resolution): never flagged
        ApiScope a("xcm_server_a", x, false);
        if (!attrs && G->plan.P("plain_api")) {
            x->s = xcm_server(addr.c_str());
            if (x->s && nonblocking && xcm_set_blocking(x->s, false) < 0) G->violation("C10.errno", "xcm_set_blocking(false) on a fresh server socket failed: %s", strerror(errno));
        } else x->s = xcm_server_a(addr.c_str(), m);
    }
    int e = errno;
    xcm_attr_map_destroy(m);
    G->logf("xcm_server_a(%s) = %s%s", addr.c_str(), x->s ? "ok" : "NULL ", x->s ? "" : strerror(e));
    if (!x->s) { x->closed = true; x->term_errno = e; errno = e; return x; }
    post_create(x);
    errno = e;
    return x;
}

XSock *x_accept(XSock *srv, struct xcm_attr_map *attrs, const std::string &label) {
    XSock *x = new_xsock(label);
    x->parent = srv;
    x->nonblocking = attr_wants_nonblocking(attrs, srv->nonblocking);
    {
        ApiScope a("xcm_accept_a", x, srv->nonblocking);
        x->s = (!attrs && G->plan.P("plain_api")) ? xcm_accept(srv->s) : xcm_accept_a(srv->s, attrs);
    }
    int e = errno;
    cur()->ops_since_poll++;
    if (x->s || e != EAGAIN) G->kmut++;
    if (!x->s) {
        G->logf("xcm_accept_a = NULL %s", strerror(e));
        x->closed = true;   // record stays (other tasks may have appended records meanwhile)
        x->label += "(failed)";
        errno = e;
        return nullptr;
    }
    G->logf("xcm_accept_a = ok (%s)", label.c_str());
    post_create(x);
    if (XSock *p = x_find_peer(x)) x_pair(x, p);
    errno = e;
    return x;
}

void x_pair(XSock *a, XSock *b) {
    if (a->peer || b->peer) return;
    a->peer = b;
    b->peer = a;
}

std::shared_ptr<KFile> x_kernel_conn(XSock *x) {
    for (auto &kv : K->fdt[1]) {
        if (kv.second.owner != x) continue;
        if (auto t = std::dynamic_pointer_cast<TcpSock>(kv.second.f)) { if (t->st == TcpSock::EST) return t; }
        else if (auto u = std::dynamic_pointer_cast<UnixSock>(kv.second.f)) { if (u->st == UnixSock::CONNECTED) return u; }
    }
    return nullptr;
}
static XSock *owner_of(const std::shared_ptr<KFile> &f) {
    if (!f) return nullptr;
    for (auto &kv : K->fdt[1])
        if (kv.second.f == f) return (XSock *)kv.second.owner;
    for (auto &x : xsocks())
        for (auto &kf : x->kfiles) if (kf == f) return x.get();
    return nullptr;
}
XSock *x_find_peer(XSock *x) {
    auto f = x_kernel_conn(x);
    if (!f) return nullptr;
    std::shared_ptr<KFile> pf;
    if (auto t = std::dynamic_pointer_cast<TcpSock>(f)) pf = t->peer.lock();
    else if (auto u = std::dynamic_pointer_cast<UnixSock>(f)) pf = u->peer.lock();
    XSock *p = owner_of(pf);
    if (!p) return nullptr;
    for (auto &u : xsocks()) if (u.get() == p) return p;  // must be a live harness record
    return nullptr;
}

static bool is_refusal(int e) { return e == EAGAIN || e == EMSGSIZE || e == EINVAL || e == EINTR; }
static bool judged(const XSock *x) { return !x->ignore_delivery && !x->dying; }

static void note_terminal(XSock *x, const char *call, int e) {
    if (is_refusal(e)) return;
    if (x->term_errno == 0 && !x->saw_eof) {
        x->term_errno = e;
        // nothing was injected and the other end is alive, has seen no failure itself and is not closing: the connection broke by itself.
        // After a refused send this is C03's "the connection remains fully usable"; otherwise accepted data can no longer be delivered (C04).
        XSock *p = x->peer;
        if (XO.judge_unprovoked && judged(x) && !x->is_server && !x->closing && p && judged(p) && !p->closed && !p->closing && !p->terminal() && !p->saw_epipe)
            G->violation(x->refused_sends ? "C03.connection_broken_after_refusal" : "C04.unprovoked_failure",
                         "%s: %s failed with %s although no fault was injected and the peer (%s) is alive, not closing and has seen no failure; %llu earlier xcm_send call(s) on this socket had been refused with EAGAIN",
                         x->label.c_str(), call, strerror(e), p->label.c_str(), (unsigned long long)x->refused_sends);
        return;
    }
    // C06: on the TCP-based transports every later send/receive/finish reports the same errno
    if (x->is_tcp_based && x->term_errno != 0 && e != x->term_errno && judged(x))
        G->violation("C06.sticky_errno", "%s: %s reported %s after the connection had failed with %s", x->label.c_str(), call, strerror(e), strerror(x->term_errno));
}

// C06: "the call that discovers it reports that errno" - the lower read/write that met the break was made by this very call
static void check_discovery(XSock *x, const char *call, bool succeeded) {
    Task *t = cur();
    int fe = t->api_fault_errno;
    t->api_fault_errno = 0;
    // judged where the failing direction is the call's own: a write inside xcm_send/xcm_finish, a read inside xcm_receive (a TLS
    // library may write from within a read - session tickets, alerts - and keep that failure to itself until the next call)
    if ((call[4] == 'r') == t->api_fault_on_write) return;
    if (!fe || fe == EPIPE || !succeeded || !judged(x) || x->is_server) return;   // (EPIPE on a write is how a close is learnt: queued input is still to be delivered)
    G->violation("C06.discovering_call_succeeded", "%s: %s returned success although its own lower-layer %s had just failed with %s: the break is first reported by a later call", x->label.c_str(), call,
                 t->api_fault_on_write ? "write" : "read", strerror(fe));
}

int x_send(XSock *x, const void *buf, size_t len) {
    int rc, e;
    // lengths beyond 1 MiB are probes of the library's size check (up to SIZE_MAX): the harness's own bookkeeping never reads more
    // than the 1 MiB that really stands behind such a pointer
    const size_t blen = std::min<size_t>(len, 1u << 20);
    x->send_inflight = true;
    x->inflight.assign((const char *)buf, blen);
    x->inflight_taken = 0;
    if (x->bytestream && !x->ghost.empty()) {
        // part of this very data already reached the peer during an earlier, refused offer (known btls defect)
        if (x->ghost.size() <= len && memcmp(x->ghost.data(), buf, x->ghost.size()) == 0) x->inflight_taken = x->ghost.size();
        else x->ghost.clear();
    }
    int64_t before[8];
    bool have_before = XO.check_refusal && judged(x) && x_read_counters(x, before);
    {
        // the library sees an exact-size heap copy that is released as soon as the call returns: a read past the offered length
        // or a pointer kept beyond the call (e.g. by a TLS write retried later) is a sanitizer report, and every retry of the
        // same bytes comes from a different address, as the API allows. (Sizes beyond 1 MiB are probes of the size check only.)
        ApiScope a("xcm_send", x, x->nonblocking);
        uint8_t *copy = (buf && len > 0 && len <= (1u << 20)) ? new uint8_t[len] : nullptr;
        if (copy) memcpy(copy, buf, len);
        errno = 0;
        rc = xcm_send(x->s, copy ? copy : buf, len);
        e = errno;
        delete[] copy;
    }
    x->send_inflight = false;
    check_discovery(x, "xcm_send", rc >= 0);
    if (have_before && rc < 0 && is_refusal(e)) {
        int64_t after[8];
        if (x_read_counters(x, after)) {
            G->count("probe.refused_send_checked");
            // from_app and to_app must be untouched; to_lower may only catch up with what had been accepted before
            if (after[1] != before[1] || after[5] != before[5] || after[0] != before[0] || after[4] != before[4] ||
                after[2] > before[1] || (!x->bytestream && after[6] > before[5]))
                G->violation("C03.refused_send_changed_state", "%s: xcm_send(%zu bytes) was refused with %s but the counters changed: from_app %lld/%lld -> %lld/%lld bytes/msgs, to_lower %lld/%lld -> %lld/%lld, to_app %lld -> %lld",
                             x->label.c_str(), len, strerror(e), (long long)before[1], (long long)before[5], (long long)after[1], (long long)after[5],
                             (long long)before[2], (long long)before[6], (long long)after[2], (long long)after[6], (long long)before[0], (long long)after[0]);
        }
    }
    size_t taken = x->inflight_taken;
    x->inflight_taken = 0;
    G->logf("xcm_send(%s, %zu) = %d%s%s", x->label.c_str(), len, rc, rc < 0 ? " " : "", rc < 0 ? strerror(e) : "");
    cur()->ops_since_poll++;
    if (!(rc < 0 && (e == EAGAIN || e == EINTR))) G->kmut++;   // API-level progress (or a terminal report) counts as a state change
    if (rc >= 0) {
        if (x->terminal() && judged(x) && len > 0)
            G->violation("C06.send_after_terminal", "%s: xcm_send succeeded after %s", x->label.c_str(), x->saw_eof ? "a receive had returned 0" : strerror(x->term_errno));
        if (x->bytestream) {
            if ((size_t)rc > len || (len > 0 && rc == 0))
                G->violation("C02.rc_range", "%s: byte-stream xcm_send(len %zu) returned %d", x->label.c_str(), len, rc);
            size_t n = std::min<size_t>((size_t)rc, len);
            if (taken > n && judged(x) && x->ghost.size() <= n)
                G->violation("C02.refused_bytes_delivered", "%s: xcm_send accepted %zu of %zu offered bytes but the peer received %zu bytes of that offer", x->label.c_str(), n, len, taken);
            size_t skip = taken;
            if (n > skip && n <= blen) x->out_stream.append((const char *)buf + skip, n - skip);
            x->ghost.clear();
            x->refused_offer.clear();
            x->refusals_in_row = 0;
            x->stream_sent += n;
            x->led_from_app_bytes += n;
        } else {
            if (rc != 0) G->violation("C01.send_rc", "%s: messaging xcm_send returned %d", x->label.c_str(), rc);
            if (!taken) x->out_fifo.emplace_back((const char *)buf, blen);   // else: already received by the peer while the call was returning
            x->sent_lens.push_back(len);
            x->sent_ok++;
            x->led_from_app_msgs++;
            x->led_from_app_bytes += (int64_t)len;
        }
        x->finish_ok_since_send = false;
        x->last_send_errno = 0;
    } else {
        if (taken > x->ghost.size() && judged(x) && e != ECONNRESET && e != EPIPE && e != ETIMEDOUT)
            // (known btls defect: a refused call leaves an *incomplete* record behind, so its bytes can only show up after a
            //  later call has flushed it - bytes of a first refusal arriving before any further call are something else)
            G->violation(x->bytestream ? (e == EAGAIN && x->refusals_in_row == 0 ? "C02.first_refusal_bytes_delivered" : "C02.refused_bytes_delivered") : "C03.failed_send_delivered", "%s: xcm_send(%zu bytes) failed with %s but the peer received %s", x->label.c_str(), len, strerror(e),
                         x->bytestream ? strf("%zu bytes of it", taken).c_str() : "the message");
        if (x->bytestream && !is_refusal(e) && len > taken && x->failed_offer.empty() && !x->conn_failed_send) {
            // the connection failed during the call: bytes the lower layer had already taken may still arrive
            // (the receiver then holds a prefix of what was offered - there is no "next call" to be misled)
            x->failed_offer.assign((const char *)buf + taken, blen - std::min(taken, blen));
        }
        if (x->bytestream && e == EAGAIN) {
            x->refusals_in_row++;
            x->refused_offer.assign((const char *)buf, blen);
            x->ghost.assign((const char *)buf, std::min(taken, blen));
        }
        if (!is_refusal(e)) x->conn_failed_send = true;
        if (e == EAGAIN) x->refused_sends++;
        x->last_send_errno = e;
        if (x->saw_eof && e != EPIPE && !is_refusal(e) && judged(x))
            G->violation("C06.send_after_close", "%s: xcm_send after the close was seen failed with %s, not EPIPE", x->label.c_str(), strerror(e));
        if (e == EPIPE) x->saw_epipe = true;
        else note_terminal(x, "xcm_send", e);
    }
    if (XO.check_counters) x_check_counters(x, "xcm_send");
    errno = e;
    return rc;
}

int x_receive(XSock *x, void *buf, size_t cap) {
    int rc, e;
    {
        ApiScope a("xcm_receive", x, x->nonblocking);
        errno = 0;
        rc = xcm_receive(x->s, buf, cap);
        e = errno;
    }
    G->logf("xcm_receive(%s, cap %zu) = %d%s%s", x->label.c_str(), cap, rc, rc < 0 ? " " : "", rc < 0 ? strerror(e) : "");
    check_discovery(x, "xcm_receive", rc > 0);
    cur()->ops_since_poll++;
    if (!(rc < 0 && (e == EAGAIN || e == EINTR))) G->kmut++;
    x->last_recv_eagain = rc < 0 && e == EAGAIN;
    if (x->last_recv_eagain) x->kmut_at_last_recv_eagain = G->kmut;
    if (rc > 0) {
        if (x->terminal() && judged(x))
            G->violation("C06.recv_after_terminal", "%s: xcm_receive delivered %d bytes after %s", x->label.c_str(), rc, x->saw_eof ? "having returned 0" : strerror(x->term_errno));
        if ((size_t)rc > cap)
            G->violation(x->bytestream ? "C02.capacity" : "C01.capacity", "%s: xcm_receive returned %d > capacity %zu", x->label.c_str(), rc, cap);
        if (!x->peer) if (XSock *p = x_find_peer(x)) x_pair(x, p);
        XSock *p = x->peer;
        x->led_to_app_msgs++;
        x->led_to_app_bytes += rc;
        if (p && !x->ignore_delivery && !p->ignore_delivery) {
            if (x->bytestream) {
                size_t n = std::min<size_t>((size_t)rc, cap);
                // bytes of a send that is still returning may already be here
                std::string avail = p->out_stream;
                size_t from_inflight = 0;
                size_t from_refused = 0;
                if (avail.size() < n && p->send_inflight) {
                    size_t extra = std::min(n - avail.size(), p->inflight.size() - p->inflight_taken);
                    avail.append(p->inflight, p->inflight_taken, extra);
                    from_inflight = extra;
                } else if (avail.size() < n && !p->send_inflight && p->refused_offer.size() > p->ghost.size()) {
                    size_t extra = std::min(n - avail.size(), p->refused_offer.size() - p->ghost.size());
                    avail.append(p->refused_offer, p->ghost.size(), extra);
                    from_refused = extra;
                }
                size_t from_failed = 0;
                if (avail.size() < n && !p->send_inflight && !from_refused && !p->failed_offer.empty()) {
                    size_t extra = std::min(n - avail.size(), p->failed_offer.size());
                    avail.append(p->failed_offer, 0, extra);
                    from_failed = extra;
                }
                if (avail.size() >= n && memcmp(avail.data(), buf, n) == 0 && from_failed) {
                    G->count("probe.failed_call_prefix_delivered");
                    p->out_stream.clear();
                    p->failed_offer.erase(0, from_failed);
                } else
                if (avail.size() >= n && memcmp(avail.data(), buf, n) == 0 && from_inflight) {
                    p->out_stream.clear();
                    p->inflight_taken += from_inflight;
                } else if (avail.size() >= n && memcmp(avail.data(), buf, n) == 0 && from_refused) {
                    p->out_stream.clear();
                    p->ghost.append(p->refused_offer, p->ghost.size(), from_refused);
                    // (the known btls defect captures at most one TLS record - 16384 bytes - of a refused call)
                    G->violation(p->refusals_in_row == 1 ? "C02.first_refusal_bytes_delivered" : "C02.refused_bytes_delivered", "%s: received %zu byte(s) (%zu so far) of an xcm_send call of the peer that was refused with EAGAIN and has not been retried yet", x->label.c_str(), from_refused, p->ghost.size());
                } else
                if (p->out_stream.size() < n || memcmp(p->out_stream.data(), buf, n) != 0) {
                    size_t off = 0;
                    while (off < n && off < p->out_stream.size() && p->out_stream[off] == ((const char *)buf)[off]) off++;
                    G->violation("C02.stream_content", "%s: received %d bytes at stream offset %llu that are not the next accepted bytes (first mismatch at +%zu; accepted-unreceived %zu bytes)",
                                 x->label.c_str(), rc, (unsigned long long)x->stream_recv, off, p->out_stream.size());
                    p->ignore_delivery = x->ignore_delivery = true;  // one report per connection
                } else p->out_stream.erase(0, n);
                x->stream_recv += n;
            } else {
                if (p->out_fifo.empty() && p->send_inflight && !p->inflight_taken && !p->bytestream) {
                    const std::string &m = p->inflight;
                    size_t want = std::min(m.size(), cap);
                    if ((size_t)rc != want || memcmp(m.data(), buf, want) != 0)
                        G->violation("C01.content", "%s: message #%llu differs from the message the peer is sending (len %zu): got %d bytes %s", x->label.c_str(), (unsigned long long)x->recv_ok, m.size(), rc, hexdump(buf, (size_t)rc).c_str());
                    p->inflight_taken = 1;
                } else if (p->out_fifo.empty()) {
                    G->violation("C01.phantom", "%s: received a %d-byte message but the peer has no accepted, undelivered message (duplicate or invented): %s", x->label.c_str(), rc, hexdump(buf, (size_t)rc).c_str());
                } else {
                    const std::string &m = p->out_fifo.front();
                    size_t want = std::min(m.size(), cap);
                    if ((size_t)rc != want)
                        G->violation("C01.length", "%s: message #%llu has length %zu, capacity %zu, but xcm_receive returned %d", x->label.c_str(), (unsigned long long)x->recv_ok, m.size(), cap, rc);
                    else if (memcmp(m.data(), buf, want) != 0)
                        G->violation("C01.content", "%s: message #%llu (len %zu) differs from what the peer sent: got %s want %s", x->label.c_str(), (unsigned long long)x->recv_ok, m.size(),
                                     hexdump(buf, want).c_str(), hexdump(m.data(), want).c_str());
                    p->out_fifo.pop_front();
                }
                x->recv_ok++;
            }
        }
    } else if (rc == 0) {
        if (x->term_errno != 0 && x->is_tcp_based && judged(x) && cap > 0)
            G->violation("C06.sticky_errno", "%s: xcm_receive returned 0 after the connection had failed with %s", x->label.c_str(), strerror(x->term_errno));
        if (cap > 0 || !x->bytestream) x->saw_eof = true;
        if (!x->peer) if (XSock *pp = x_find_peer(x)) x_pair(x, pp);
        if (x->peer && x->peer->closed_after_flush && judged(x) && judged(x->peer)) {
            // Did this end of the kernel connection itself break (reset / EPIPE after writing into a closed
            // peer)? Then losing the tail is a statement about close handling (C06); on a healthy
            // connection it is a delivery failure (C01/C02).
            bool broke = x->saw_epipe;
            if (auto t = std::dynamic_pointer_cast<TcpSock>(x_kernel_conn(x))) broke = broke || t->dead;
            size_t nm = x->peer->out_fifo.size(), nb = x->peer->out_stream.size();
            if (nm || nb) {
                if (broke)
                    G->violation("C06.lost_on_close", "%s: peer closed after flushing everything; this end's writes hit the closed peer (EPIPE/RST) and xcm_receive then returned 0 although %zu message(s)/%zu byte(s) that had been sent to it were never delivered", x->label.c_str(), nm, nb);
                else
                    G->violation(nm ? "C01.lost" : "C02.lost", "%s: xcm_receive returned 0 on a healthy connection although %zu message(s)/%zu byte(s) accepted and flushed by the peer before its close were never delivered", x->label.c_str(), nm, nb);
            }
        }
    } else {
        if (x->saw_eof && !is_refusal(e) && judged(x))
            G->violation("C06.eof_not_sticky", "%s: xcm_receive returned %s after having returned 0", x->label.c_str(), strerror(e));
        note_terminal(x, "xcm_receive", e);
    }
    if (XO.check_counters) x_check_counters(x, "xcm_receive");
    errno = e;
    return rc;
}

int x_finish(XSock *x) {
    int rc, e;
    {
        ApiScope a("xcm_finish", x, x->nonblocking);
        errno = 0;
        rc = xcm_finish(x->s);
        e = errno;
    }
    G->logf("xcm_finish(%s) = %d%s%s", x->label.c_str(), rc, rc < 0 ? " " : "", rc < 0 ? strerror(e) : "");
    check_discovery(x, "xcm_finish", rc == 0);
    cur()->ops_since_poll++;
    if (rc < 0 && e != EAGAIN && e != EINTR) G->kmut++;
    if (rc == 0) x->finish_ok_since_send = true;
    if (rc < 0 && !x->is_server && e == EPIPE) x->saw_epipe = true;
    if (rc < 0 && !x->is_server && e != EPIPE) note_terminal(x, "xcm_finish", e);
    if (rc == 0 && x->term_errno != 0 && x->is_tcp_based && judged(x) && !x->is_server)
        G->violation("C06.sticky_errno", "%s: xcm_finish returned 0 after the connection had failed with %s", x->label.c_str(), strerror(x->term_errno));
    if (XO.check_counters && !x->is_server) x_check_counters(x, "xcm_finish");
    errno = e;
    return rc;
}

int x_await(XSock *x, int cond) {
    ApiScope a("xcm_await", x, x->nonblocking);
    int rc = xcm_await(x->s, cond);
    G->logf("xcm_await(%s, %d) = %d", x->label.c_str(), cond, rc);
    // C16 (last clause): input that the kernel already holds for a plain (non-TLS) connection meets RECEIVABLE at the time of
    // xcm_await, whatever else is outstanding (a frame lingering in the send buffer included): the descriptor is readable at once
    if (XO.check_ready_at_await && rc == 0 && (cond & XCM_SO_RECEIVABLE) && x->nonblocking && !x->is_server && !x->is_tls && !x->terminal() && !x->closing && x->xfd >= 0) {
        auto f = x_kernel_conn(x);
        bool plain = f && (std::dynamic_pointer_cast<UnixSock>(f) || (std::dynamic_pointer_cast<TcpSock>(f) && x->is_tcp_based));
        if (plain && (f->poll_mask() & POLLIN)) {
            G->count("probe.await_with_input_pending");
            if (!K->epoll_ready(x->xfd))
                G->violation("C16.not_ready_when_met", "%s: xcm_await(%d) with input already held by the kernel for this connection: the socket's descriptor is not readable; registrations: %s",
                             x->label.c_str(), cond, K->epoll_dump(x->xfd).c_str());
        }
    }
    return rc;
}

int x_fd(XSock *x) {
    ApiScope a("xcm_fd", x, x->nonblocking);
    int fd = xcm_fd(x->s);
    if (XO.check_fd_stable && x->xfd >= 0 && fd >= 0 && fd != x->xfd)
        G->violation("C16.fd_changed", "%s: xcm_fd returned %d, earlier %d", x->label.c_str(), fd, x->xfd);
    if (x->xfd < 0) x->xfd = fd;
    return fd;
}

int x_close(XSock *x) {
    if (!x || x->closed || !x->s) return 0;
    int rc;
    x->closing = true;
    x->closed_after_flush = !x->is_server && !x->terminal() && !x->saw_epipe && (!x->nonblocking || x->finish_ok_since_send || x->sent_ok + x->stream_sent == 0);
    if (XO.check_counters && !x->is_server && judged(x)) x->final_valid = x_read_counters(x, x->final_cnt);
    {
        ApiScope a("xcm_close", x, x->nonblocking);
        cur()->close_send_truncated = false;
        rc = xcm_close(x->s);
        x->close_truncated = cur()->close_send_truncated;
        // a record of a refused (EAGAIN/EINTR) send still pending inside the TLS library blocks the close_notify just as a full
        // socket buffer does: the close goes out as a bare FIN (same known finding as the truncated alert)
        if (x->is_tls && !x->is_server && (x->last_send_errno == EAGAIN || x->last_send_errno == EINTR)) x->close_truncated = true;
    }
    G->logf("xcm_close(%s) = %d", x->label.c_str(), rc);
    x->closed = true;
    x->s = nullptr;
    return rc;
}

int x_set_blocking(XSock *x, bool blocking) {
    int rc, e;
    {
        // switching to blocking may wait for outstanding work (documented): not a C05 subject
        ApiScope a("xcm_set_blocking", x, false);
        rc = xcm_set_blocking(x->s, blocking);
        e = errno;
    }
    if (rc == 0) x->nonblocking = !blocking;
    errno = e;
    return rc;
}

int x_attr_get(XSock *x, const char *name, enum xcm_attr_type *type, void *buf, size_t cap) {
    ApiScope a("xcm_attr_get", x, x->nonblocking);
    return xcm_attr_get(x->s, name, type, buf, cap);
}
int x_attr_get_int64(XSock *x, const char *name, int64_t *v) {
    ApiScope a("xcm_attr_get_int64", x, x->nonblocking);
    return xcm_attr_get_int64(x->s, name, v);
}
int x_attr_set(XSock *x, const char *name, enum xcm_attr_type type, const void *val, size_t len) {
    ApiScope a("xcm_attr_set", x, x->nonblocking);
    return xcm_attr_set(x->s, name, type, val, len);
}

bool x_wait(XSock *x) {
    int fd = x_fd(x);
    for (;;) {
        struct pollfd p = {fd, POLLIN, 0};
        int rc = k::poll(&p, 1, -1);
        if (rc < 0 && errno == EINTR && !G->stopping) continue;   // injected signal: the application's loop just polls again
        return rc > 0;
    }
}

static const char *cnt_names[8] = {"xcm.to_app_bytes", "xcm.from_app_bytes", "xcm.to_lower_bytes", "xcm.from_lower_bytes",
                                   "xcm.to_app_msgs", "xcm.from_app_msgs", "xcm.to_lower_msgs", "xcm.from_lower_msgs"};

struct CntCb { int64_t *out; int seen; };
static void cnt_cb(const char *name, enum xcm_attr_type type, void *value, size_t len, void *data) {
    CntCb *c = (CntCb *)data;
    if (type != xcm_attr_type_int64 || len != sizeof(int64_t) || strncmp(name, "xcm.", 4) != 0) return;
    for (int i = 0; i < 8; i++)
        if (!strcmp(name, cnt_names[i])) { memcpy(&c->out[i], value, sizeof(int64_t)); c->seen |= 1 << i; }
}

bool x_read_counters(XSock *x, int64_t out[8]) {
    if (!x->s || x->is_server) return false;
    int n = x->bytestream ? 4 : 8;
    for (int i = 0; i < 8; i++) out[i] = 0;
    // one attribute-tree construction for all counters (a tree is built per attribute call)
    CntCb c{out, 0};
    {
        ApiScope a("xcm_attr_get_all", x, x->nonblocking);
        xcm_attr_get_all(x->s, cnt_cb, &c);
    }
    return (c.seen & ((1 << n) - 1)) == (1 << n) - 1;
}

void x_check_counters(XSock *x, const char *after) {
    int64_t c[8];
    // attribute access on TLS sockets is expensive (certificate extensions are decoded per call):
    // every call is checked at first, every 16th later on
    if (++x->cnt_calls > 150 && (x->cnt_calls & 15) != 0) return;
    if (!x_read_counters(x, c)) return;
    int n = x->bytestream ? 4 : 8;
    G->count("probe.counter_reads");
    if (x->cnt_valid)
        for (int i = 0; i < n; i++)
            if (c[i] < x->last_cnt[i]) G->violation("C17.monotone", "%s: %s decreased from %lld to %lld after %s", x->label.c_str(), cnt_names[i], (long long)x->last_cnt[i], (long long)c[i], after);
    memcpy(x->last_cnt, c, sizeof(c));
    x->cnt_valid = true;
    if (!judged(x)) return;
    if (x->conn_failed_send) return;   // a send that failed together with the connection may or may not have been counted as accepted
    if (c[1] != x->led_from_app_bytes) G->violation("C17.from_app_bytes", "%s: xcm.from_app_bytes=%lld but the application had %lld bytes accepted (after %s)", x->label.c_str(), (long long)c[1], (long long)x->led_from_app_bytes, after);
    if (c[0] != x->led_to_app_bytes) G->violation("C17.to_app_bytes", "%s: xcm.to_app_bytes=%lld but %lld bytes were really delivered to the application (after %s)", x->label.c_str(), (long long)c[0], (long long)x->led_to_app_bytes, after);
    if (!x->bytestream) {
        if (c[5] != x->led_from_app_msgs) G->violation("C17.from_app_msgs", "%s: xcm.from_app_msgs=%lld, accepted %lld (after %s)", x->label.c_str(), (long long)c[5], (long long)x->led_from_app_msgs, after);
        if (c[4] != x->led_to_app_msgs) G->violation("C17.to_app_msgs", "%s: xcm.to_app_msgs=%lld, delivered %lld (after %s)", x->label.c_str(), (long long)c[4], (long long)x->led_to_app_msgs, after);
        if (c[5] < c[6]) G->violation("C17.order", "%s: from_app_msgs %lld < to_lower_msgs %lld", x->label.c_str(), (long long)c[5], (long long)c[6]);
        if (c[7] < c[4]) G->violation("C17.order", "%s: from_lower_msgs %lld < to_app_msgs %lld", x->label.c_str(), (long long)c[7], (long long)c[4]);
    }
    if (c[1] < c[2]) G->violation("C17.order", "%s: from_app_bytes %lld < to_lower_bytes %lld", x->label.c_str(), (long long)c[1], (long long)c[2]);
    if (c[3] < c[0]) G->violation("C17.order", "%s: from_lower_bytes %lld < to_app_bytes %lld", x->label.c_str(), (long long)c[3], (long long)c[0]);
}

}  // namespace xs
