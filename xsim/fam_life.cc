// Family "life" (C08): one application thread runs a generated lifecycle program - servers, connection
// attempts of every kind (to a listener, to nobody, into a black hole, to an unresolvable name), accepts
// with and without (rejected) attribute maps, traffic, closes in any order - over all transports. The
// worker first executes it fault-free, recording every resource-creating system call, then once per
// (call, errno) with that call made to fail, once per operation boundary with a real fork() whose child
// runs xcm_cleanup on every socket, and for a sample of call pairs. End-of-run conservation, the
// foreign-descriptor monitor and the abort trap are the oracles.
#include "run.h"
#include "hooks.h"
#include <cerrno>
#include <sys/wait.h>
#include <unistd.h>

extern "C" {
ssize_t __real_read(int, void *, size_t);
ssize_t __real_write(int, const void *, size_t);
int __real_close(int);
}

namespace xs {

static const char *L_TPS[] = {"ux", "uxf", "tcp", "tls", "utls", "btcp", "btls"};

struct LCtx {
    std::vector<XSock *> servers, conns;   // creation order (failed creations are not recorded)
    std::vector<std::string> srv_addr;
    int child_pipe = -1;
};
static LCtx *LX = nullptr;

static std::string addr_of(const std::string &tp, int slot) {
    if (tp == "ux") return strf("ux:life-%d", slot);
    if (tp == "uxf") return strf("uxf:/tmp/life-%d.sock", slot);
    return strf("%s:127.0.0.1:%d", tp.c_str(), 6000 + slot);
}

static void gen(uint64_t seed, const std::string &prop, Plan &plan) {
    Rng r(mix64(seed, 0x11FE));
    plan.family = "life";
    plan.prop = prop;
    plan.seed = seed;
    gen_common_knobs(r, plan, false);
    auto &p = plan.p;
    if (p["tcp_buf"] < 4096) p["tcp_buf"] = 65536;
    p["yield_pm"] = 0;
    p["ctl"] = r.chance(0.4);
    p["variant_cap"] = 260;
    int nsrv = (int)r.range(1, 3);
    std::vector<std::string> stp;
    for (int i = 0; i < nsrv; i++) {
        std::string tp = L_TPS[r.below(7)];
        stp.push_back(tp);
        plan.ops.push_back(Op{0, "server", {i}, tp, {}});
    }
    if (r.chance(0.15)) plan.ops.push_back(Op{0, "server", {0}, stp[0], {}});   // a second server on an address in use
    int nops = (int)r.range(3, 16);
    for (int k = 0; k < nops; k++) {
        int c = (int)r.below(100);
        if (c < 22) {
            int s = (int)r.below((uint64_t)nsrv);
            plan.ops.push_back(Op{0, "connect", {s, (int64_t)r.below(6)}, stp[(size_t)s], {}});   // n[1]: attribute-map variant
            if (r.chance(0.35)) {   // ... and a blocking accept of it once it is pending
                plan.ops.back().n[1] = (int64_t)r.below(2);   // (a connect that is meant to succeed)
                plan.ops.push_back(Op{0, "sleep", {2}, "", {}});
                plan.ops.push_back(Op{0, "baccept", {s, (int64_t)(r.chance(0.7) ? 0 : r.below(6))}, "", {}});
            }
        } else if (c < 30) {
            static const char *tgt[] = {"refuse", "blackhole", "nxdomain", "dnsname", "unreach"};
            static const char *ttp[] = {"tcp", "tls", "btcp", "btls", "utls"};
            plan.ops.push_back(Op{0, "connect_odd", {(int64_t)r.below(5)}, std::string(ttp[r.below(5)]) + ":" + tgt[r.below(5)], {}});
        } else if (c < 50) plan.ops.push_back(Op{0, r.chance(0.25) ? "baccept" : "accept", {(int64_t)r.below((uint64_t)nsrv), (int64_t)r.below(7)}, "", {}});   // baccept: in blocking mode, when a connection is pending
        else if (c < 65) plan.ops.push_back(Op{0, "pump", {(int64_t)r.below(3)}, "", {}});
        else if (c < 78) plan.ops.push_back(Op{0, "send", {(int64_t)r.below(8), (int64_t)(1 + r.below(r.chance(0.8) ? 300 : 60000))}, "", {}});
        else if (c < 86) plan.ops.push_back(Op{0, "close", {(int64_t)r.below(12)}, "", {}});
        else if (c < 90) plan.ops.push_back(Op{0, "sleep", {(int64_t)(1 + r.below(r.chance(0.7) ? 50 : 5000))}, "", {}});
        else if (c < 93) plan.ops.push_back(Op{0, "attr", {(int64_t)r.below(8), (int64_t)r.below(6)}, "", {}});
        else if (c < 96) plan.ops.push_back(Op{0, "flood", {(int64_t)r.below((uint64_t)nsrv), (int64_t)r.range(30, 44)}, stp[r.below((uint64_t)nsrv)], {}});   // nobody accepts: the listen queue fills up
        else plan.ops.push_back(Op{0, "pump", {2}, "", {}});
        // interest declared on some socket: its descriptors are registered in the socket's epoll instance from here on
        // (what a forked child's xcm_cleanup must leave alone, what close has to undo)
        if (r.chance(0.35)) plan.ops.push_back(Op{0, "await", {(int64_t)r.below(16), (int64_t)r.below(4)}, "", {}});
    }
    plan.ops.push_back(Op{0, "pump", {2}, "", {}, -1});
    plan.ops.push_back(Op{0, "closeall", {}, "", {}, -1});
    p["step_budget"] = 400000;
}

// attribute maps for connect/accept: index 0 none, 1 valid, 2-5 maps that must be rejected
static struct xcm_attr_map *attr_variant(int v, bool accept_side, const std::string &tp) {
    if (v == 0) return nullptr;
    struct xcm_attr_map *m = xcm_attr_map_create();
    bool tcpb = tp != "ux" && tp != "uxf";
    switch (v) {
    case 1: xcm_attr_map_add_bool(m, "xcm.blocking", false); if (tcpb && tp != "utls") xcm_attr_map_add_int64(m, "tcp.keepalive_time", 7); break;
    case 2: xcm_attr_map_add_int64(m, "no.such.attribute", 1); break;
    case 3: xcm_attr_map_add_str(m, "xcm.blocking", "yes"); break;                       // wrong type
    case 4: if (accept_side && tcpb) xcm_attr_map_add_double(m, "tcp.connect_timeout", 1.5); else xcm_attr_map_add_int64(m, "xcm.to_app_bytes", 3); break;   // not allowed here / read-only
    case 5: if (tcpb && tp != "utls") xcm_attr_map_add_int64(m, "tcp.keepalive_count", -4); else xcm_attr_map_add_str(m, "xcm.service", "nonsense"); break;   // bad value
    case 6: xcm_attr_map_add_bool(m, "xcm.blocking", true); break;   // a blocking connection off a non-blocking server (switched back right after the call: one thread hosts both ends)
    }
    return m;
}

static void pump(int rounds) {
    std::unique_ptr<uint8_t[]> buf(new uint8_t[65536]);
    for (int i = 0; i <= rounds && !G->stopping; i++) {
        for (auto *x : LX->conns) {
            if (x->closed) continue;
            x_finish(x);
            for (int k = 0; k < 8 && !x->closed; k++) { int rc = x_receive(x, buf.get(), x->bytestream ? 65536 : 65535); if (rc <= 0) break; }
        }
        task_sleep(300 * US);
    }
}

static void child_fatal(const char *oracle, const char *detail) {
    if (LX && LX->child_pipe >= 0) {
        std::string l = std::string("C08.cleanup_crash\t") + oracle + ": " + detail + "\n";
        __real_write(LX->child_pipe, l.data(), l.size());
    }
    _exit(0);
}

// A real fork(): the child (this thread only) runs xcm_cleanup on every socket; the simulated kernel,
// copied with the process, flags every call of it whose effect the owner would see. The child reports
// through a pipe and leaves; the parent goes on with its program.
static void do_fork() {
    int pfd[2];
    if (pipe(pfd) < 0) return;
    fflush(stdout);
    fflush(stderr);
    pid_t pid = fork();
    if (pid < 0) { __real_write(2, "fork failed\n", 12); return; }
    if (pid == 0) {
        __real_close(pfd[0]);
        LX->child_pipe = pfd[1];
        on_fatal = child_fatal;
        K->child_mode = true;
        G->yield_p = 0;
        size_t nv0 = G->violations.size();
        for (auto &x : xsocks()) {
            if (x->closed || !x->s) continue;
            ApiScope a("xcm_cleanup", x.get(), false);
            xcm_cleanup(x->s);
            x->s = nullptr;
        }
        for (size_t i = nv0; i < G->violations.size(); i++) {
            std::string l = G->violations[i].oracle + "\t" + G->violations[i].detail + "\n";
            __real_write(pfd[1], l.data(), l.size());
        }
        _exit(0);
    }
    __real_close(pfd[1]);
    std::string out;
    char b[4096];
    for (;;) { ssize_t n = __real_read(pfd[0], b, sizeof(b)); if (n <= 0) break; out.append(b, (size_t)n); }
    __real_close(pfd[0]);
    int st = 0;
    waitpid(pid, &st, 0);
    G->count("fault.fork_cleanup");
    size_t pos = 0;
    while (pos < out.size()) {
        size_t nl = out.find('\n', pos);
        if (nl == std::string::npos) nl = out.size();
        std::string line = out.substr(pos, nl - pos);
        size_t tab = line.find('\t');
        if (tab != std::string::npos) G->violation(line.substr(0, tab), "in the forked child: %s", line.substr(tab + 1).c_str());
        pos = nl + 1;
    }
    if (!WIFEXITED(st) || WEXITSTATUS(st) != 0)
        G->violation("C08.cleanup_crash", "the forked child running xcm_cleanup on every socket died (wait status 0x%x%s)", st, WIFEXITED(st) && WEXITSTATUS(st) == 77 ? ", sanitizer report" : "");
}

static void program(const Plan *pl) {
    int fork_at = (int)pl->P("fork_at", -1);
    for (size_t oi = 0; oi < pl->ops.size(); oi++) {
        if (G->stopping) break;
        const Op &op = pl->ops[oi];
        if ((int)oi == fork_at) do_fork();
        arm_faults(op.faults, (int)oi);
        if (op.kind == "server") {
            int slot = (int)op.arg(0);
            struct xcm_attr_map *m = nullptr;
            if (op.s == "btcp" || op.s == "btls") { m = xcm_attr_map_create(); xcm_attr_map_add_str(m, "xcm.service", "bytestream"); }
            XSock *s = x_server(addr_of(op.s, slot), m, true, strf("srv%zu", LX->servers.size()));
            if (m) xcm_attr_map_destroy(m);
            if (s->s) { LX->servers.push_back(s); LX->srv_addr.push_back(addr_of(op.s, slot)); }
            else G->count("probe.server_failed");
        } else if (op.kind == "connect" || op.kind == "connect_odd") {
            std::string addr, tp;
            struct xcm_attr_map *m = nullptr;
            if (op.kind == "connect") {
                if (LX->servers.empty()) { disarm_faults(); continue; }
                size_t s = (size_t)op.arg(0) % LX->servers.size();
                addr = LX->srv_addr[s];
                tp = addr.substr(0, addr.find(':'));
                m = attr_variant((int)op.arg(1), false, tp);
                if (tp == "btcp" || tp == "btls") { if (!m) m = xcm_attr_map_create(); if (!xcm_attr_map_exists(m, "xcm.service")) xcm_attr_map_add_str(m, "xcm.service", "bytestream"); }
            } else {
                size_t c = op.s.find(':');
                tp = op.s.substr(0, c);
                std::string tgt = op.s.substr(c + 1);
                const char *host = tgt == "refuse" ? "10.0.0.9" : tgt == "blackhole" ? "10.0.0.8" : tgt == "unreach" ? "10.0.0.7" : tgt == "nxdomain" ? "nosuch.example" : "srv.example";
                addr = strf("%s:%s:%d", tp.c_str(), host, 6100);
                if (tp == "btcp" || tp == "btls") { m = xcm_attr_map_create(); xcm_attr_map_add_str(m, "xcm.service", "bytestream"); }
            }
            XSock *c = x_connect(addr, m, true, strf("c%zu", LX->conns.size()));
            if (m) xcm_attr_map_destroy(m);
            if (c->s) LX->conns.push_back(c);
            else G->count("probe.connect_failed");
        } else if (op.kind == "accept" || op.kind == "baccept") {
            if (!LX->servers.empty()) {
                XSock *srv = LX->servers[(size_t)op.arg(0) % LX->servers.size()];
                // a blocking accept (its internal wait can be interrupted: EINTR variants) is only possible in this single-threaded
                // program when a connection is already pending and no handshake has to be driven from the other end
                bool blocking = false;
                if (op.kind == "baccept" && !srv->closed) {
                    std::string btp = LX->srv_addr[(size_t)op.arg(0) % LX->servers.size()];
                    btp = btp.substr(0, btp.find(':'));
                    bool pending = false;
                    for (auto &kf : srv->kfiles) {
                        if (auto t = std::dynamic_pointer_cast<TcpSock>(kf)) if (!t->acceptq.empty()) pending = true;
                        if (auto u = std::dynamic_pointer_cast<UnixSock>(kf)) if (!u->acceptq.empty()) pending = true;
                    }
                    if (pending && (btp == "ux" || btp == "uxf" || btp == "tcp" || btp == "btcp") && x_set_blocking(srv, true) == 0) { blocking = true; G->count("probe.blocking_accept"); }
                }
                if (!srv->closed) {
                    std::string tp = LX->srv_addr[(size_t)op.arg(0) % LX->servers.size()];
                    tp = tp.substr(0, tp.find(':'));
                    struct xcm_attr_map *m = attr_variant((int)op.arg(1), true, tp);
                    XSock *c = x_accept(srv, m, strf("a%zu", LX->conns.size()));
                    if (m) xcm_attr_map_destroy(m);
                    if (c) { if (blocking || !c->nonblocking) x_set_blocking(c, false); LX->conns.push_back(c); }
                    else G->count("probe.accept_failed");
                }
                if (blocking && !srv->closed) x_set_blocking(srv, false);
            }
        } else if (op.kind == "flood") {
            // C05: non-blocking connects against a full listen queue report EAGAIN (or stay in progress), they never wait
            if (!LX->servers.empty()) {
                size_t sidx = (size_t)op.arg(0) % LX->servers.size();
                std::string addr = LX->srv_addr[sidx], tp = addr.substr(0, addr.find(':'));
                for (int i = 0; i < (int)op.arg(1) && !G->stopping; i++) {
                    struct xcm_attr_map *m = nullptr;
                    if (tp == "btcp" || tp == "btls") { m = xcm_attr_map_create(); xcm_attr_map_add_str(m, "xcm.service", "bytestream"); }
                    XSock *c = x_connect(addr, m, true, strf("f%zu", LX->conns.size()));
                    if (m) xcm_attr_map_destroy(m);
                    if (c->s) LX->conns.push_back(c); else G->count("probe.flood_connect_refused");
                }
                G->count("probe.flood");
            }
        } else if (op.kind == "pump") pump((int)op.arg(0));
        else if (op.kind == "send") {
            if (!LX->conns.empty()) {
                XSock *x = LX->conns[(size_t)op.arg(0) % LX->conns.size()];
                if (!x->closed) {
                    size_t len = (size_t)op.arg(1);
                    if (!x->bytestream && len > 65535) len = 65535;
                    std::string m = make_payload(pl->seed, x->idx, 3, (int)oi, len);
                    x_send(x, m.data(), m.size());
                }
            }
        } else if (op.kind == "close") {
            size_t n = LX->servers.size() + LX->conns.size();
            if (n) {
                size_t k = (size_t)op.arg(0) % n;
                XSock *x = k < LX->servers.size() ? LX->servers[k] : LX->conns[k - LX->servers.size()];
                x_close(x);
            }
        } else if (op.kind == "sleep") task_sleep(op.arg(0) * MS);
        else if (op.kind == "await") {
            size_t ns = LX->servers.size(), nc = LX->conns.size();
            if (ns + nc > 0) {
                size_t k = (size_t)op.arg(0) % (ns + nc);
                XSock *x = k < ns ? LX->servers[k] : LX->conns[k - ns];
                if (!x->closed && x->nonblocking) {
                    static const int conds[] = {XCM_SO_RECEIVABLE, XCM_SO_SENDABLE, XCM_SO_RECEIVABLE | XCM_SO_SENDABLE, 0};
                    x_await(x, k < ns ? (op.arg(1) == 3 ? 0 : XCM_SO_ACCEPTABLE) : conds[op.arg(1) % 4]);
                }
            }
        }
        else if (op.kind == "attr") {
            if (!LX->conns.empty()) {
                XSock *x = LX->conns[(size_t)op.arg(0) % LX->conns.size()];
                if (!x->closed) {
                    char buf[256];
                    enum xcm_attr_type t;
                    static const char *names[] = {"xcm.transport", "xcm.local_addr", "xcm.remote_addr", "tcp.rtt", "tls.peer_subject_key_id", "xcm.max_msg_size"};
                    x_attr_get(x, names[op.arg(1) % 6], &t, buf, sizeof(buf));
                }
            }
        } else if (op.kind == "closeall") {
            for (auto *x : LX->conns) x_close(x);
            for (auto *x : LX->servers) x_close(x);
        }
        disarm_faults();
    }
    // whatever the program left open (operations dropped by minimisation) is closed here
    for (auto &x : xsocks()) if (!x->closed && x->s) x_close(x.get());
}

static void setup(const Plan &plan) {
    delete LX;
    LX = new LCtx();
    install_basic_tls_files("/cert");
    K->mkdir_p("/tmp");
    if (plan.P("ctl")) { K->mkdir_p("/ctl"); K->env["XCM_CTL"] = "/ctl"; }
    K->hosts["10.0.0.9"] = Host{HostKind::REFUSE, -1};
    K->hosts["10.0.0.8"] = Host{HostKind::BLACKHOLE, -1};
    K->hosts["10.0.0.7"] = Host{HostKind::UNREACH_HOST, -1};
    (*DNS)["srv.example"] = DnsAnswer{{"10.0.0.9", "10.0.0.8"}, 2 * MS, 0};
    (*DNS)["nosuch.example"] = DnsAnswer{{}, 1 * MS, 1};
    const Plan *pl = &G->plan;
    G->spawn("app", [pl] { program(pl); }, 1, 0);
}

static void finalize(const Plan &plan, EndReason r) {
    if (r == EndReason::QUIESCENT) G->violation("C08.stuck", "the lifecycle program (non-blocking sockets only) stopped making progress: %s", G->tasks[0]->parked_why.c_str());
    else if (r == EndReason::BUDGET) G->violation("C08.spin", "step budget exhausted in the lifecycle program (%llu steps)", (unsigned long long)G->steps);
    g_run_nontrivial = plan.P("variant") == 0 || G->stat.count("fault.fork_cleanup") || G->stat.count("fault.res.socket") || G->stat.count("fault.res.accept4") || G->stat.count("fault.res.epoll_create1") ||
                       G->stat.count("fault.res.eventfd") || G->stat.count("fault.res.timerfd_create") || G->stat.count("fault.res.connect") || G->stat.count("fault.res.bind") || G->stat.count("fault.res.listen") || G->stat.count("fault.res.fopen") || G->stat.count("fault.eintr.poll");
}

static void variants(const Plan &base, const Result &ref, std::vector<Plan> &out, size_t cap) {
    if (ref.end_reason != "all_done") return;
    std::vector<Plan> all;
    struct E { const char *name; std::vector<int> errs; };
    static const E tab[] = {
        {"res:socket", {EMFILE, ENFILE, ENOMEM}}, {"res:accept4", {EMFILE, ENFILE, ECONNABORTED}}, {"res:epoll_create1", {EMFILE, ENFILE, ENOMEM}},
        {"res:eventfd", {EMFILE, ENFILE, ENOMEM}}, {"res:timerfd_create", {EMFILE, ENFILE}}, {"res:connect", {ENETUNREACH, EADDRNOTAVAIL, EACCES}},
        {"res:bind", {EADDRINUSE, EACCES}}, {"res:listen", {EADDRINUSE}}, {"res:fopen", {EMFILE, EACCES, ENOENT}},
    };
    std::vector<std::pair<int64_t, int>> singles;
    for (auto &c : ref.calls) {
        if (c.call.compare(0, 4, "res:") != 0) continue;
        for (auto &e : tab)
            if (c.call == e.name)
                for (int er : e.errs) {
                    Plan v = base;
                    v.sp["variant"] = strf("res:%s#%d:%s", c.call.c_str() + 4, c.nth_in_op, strerror(er));
                    v.p["fail_rescall_at"] = c.nth_in_op;
                    v.p["fail_rescall_errno"] = er;
                    all.push_back(v);
                    singles.emplace_back(c.nth_in_op, er);
                }
    }
    // an interrupted wait inside a blocking call (EINTR) is one more internal step at which an attempt can fail
    for (auto &c : ref.calls) {
        if (c.call != "poll" || c.op_index < 0 || c.op_index >= (int)base.ops.size()) continue;
        Plan v = base;
        v.sp["variant"] = strf("eintr:op%d:poll%d", c.op_index, c.nth_in_op);
        v.ops[(size_t)c.op_index].faults.push_back(Fault{"eintr", "poll", c.nth_in_op, 0, 0});
        all.push_back(v);
    }
    for (size_t k = 0; k < base.ops.size(); k++) {
        Plan v = base;
        v.sp["variant"] = strf("fork:before_op%zu", k);
        v.p["fork_at"] = (int64_t)k;
        all.push_back(v);
    }
    // a seeded sample of double faults
    Rng r(mix64(base.seed, 0xD0B1));
    for (int i = 0; i < 24 && singles.size() > 1; i++) {
        auto a = singles[r.below(singles.size())], b = singles[r.below(singles.size())];
        if (a.first == b.first) continue;
        Plan v = base;
        v.sp["variant"] = strf("res2:#%lld:%s+#%lld:%s", (long long)a.first, strerror(a.second), (long long)b.first, strerror(b.second));
        v.p["fail_rescall_at"] = a.first; v.p["fail_rescall_errno"] = a.second;
        v.p["fail_rescall_at2"] = b.first; v.p["fail_rescall_errno2"] = b.second;
        all.push_back(v);
    }
    if (all.size() > cap) {
        for (size_t i = 0; i < cap; i++) { size_t j = i + r.below(all.size() - i); std::swap(all[i], all[j]); }
        all.resize(cap);
        for (auto &v : all) v.p["enum_truncated"] = 1;
    }
    out = std::move(all);
}

static struct Reg_life { Reg_life() { register_family(Family{"life", gen, setup, finalize, nullptr, variants}); } } reg;

}  // namespace xs
