// Family "ctl" (C14, also C05): an owner application (one thread, non-blocking sockets, by-value TLS
// credentials where the transport has them) keeps a connection pair busy with ping-pong traffic while
// control-interface clients work on its sockets' control files in the simulated file system:
//  - the real libxcmctl (xcmc_list/open/attr_get/attr_get_all/close) as a task of its own;
//  - raw clients (another simulated process) sending generated datagrams: correct requests, wrong
//    sizes, unknown types, names without NUL, get-all first, disconnecting in mid-exchange, never
//    reading replies, more sessions than the two the interface serves.
// Replies are compared with in-process xcm_attr_get / xcm_attr_get_all by the owner itself (between
// its own API calls), every reply datagram is scanned for tls.key material.
#include "run.h"
#include "pki.h"
#include <cerrno>
#include <sys/un.h>
extern "C" {
#include <xcmc.h>
}

namespace xs {

static const char *C_TPS[] = {"ux", "uxf", "tcp", "tls", "utls", "btcp", "btls"};
static const char *C_NAMES[] = {"xcm.type", "xcm.transport", "xcm.service", "xcm.local_addr", "xcm.remote_addr", "xcm.max_msg_size", "xcm.blocking", "xcm.from_app_bytes", "xcm.to_app_msgs",
                                "tcp.keepalive_time", "tcp.rtt", "tls.auth", "tls.check_time", "tls.cert", "tls.key", "tls.tc", "tls.key_file", "tls.peer_subject_key_id", "tls.peer.cert.subject.cn",
                                "tls.peer.cert.san.dns[0]", "tls.peer_names", "dns.algorithm", "no.such.attr", "xcm", "tls.peer.cert.san.dns", ""};
static const size_t C_NNAMES = sizeof(C_NAMES) / sizeof(C_NAMES[0]);

// wire layout of struct ctl_proto_msg (common/ctl_proto.h), kept as offsets so that the raw clients do not depend on the library's headers
struct WireAttr { char name[64]; int32_t value_type; uint8_t value[512]; uint64_t value_len; };
static const size_t ATTR_SZ = 64 + 4 + 4 /*pad*/ + 512 + 8;      // 592
static const size_t MSG_SZ = 8 + 64 * ATTR_SZ + 8;                // 37904
enum { T_GET_REQ = 0, T_GET_CFM = 1, T_GET_REJ = 2, T_ALL_REQ = 3, T_ALL_CFM = 4 };

struct Reply {
    int slot = 0;               // which owner socket
    int kind = 0;               // 0 get, 1 get_all
    std::string name;
    bool via_lib = false;
    bool first_on_session = false;
    // get
    int type = -1, rej_errno = 0, value_type = -1;
    uint64_t value_len = 0;
    std::string value;
    // get_all
    std::vector<std::pair<std::string, std::string>> all;   // name -> value bytes
    uint64_t attrs_len = 0;
    int lib_rc = 0, lib_errno = 0;
};

struct CCtx {
    std::string tp;
    std::vector<XSock *> socks;                 // slot -> socket (srv, cli, acc)
    std::vector<std::string> paths;             // slot -> control file
    bool owner_ready = false, owner_failed = false;
    int clients_left = 0;
    std::vector<Reply> replies;
    std::string key_pem_body;                   // base64 body of the private key given by value
    bool key_by_value = false;
};
static CCtx *CX2 = nullptr;

static void gen(uint64_t seed, const std::string &prop, Plan &plan) {
    Rng r(mix64(seed, 0xC71));
    plan.family = "ctl";
    plan.prop = prop;
    plan.seed = seed;
    gen_common_knobs(r, plan, false);
    auto &p = plan.p;
    if (p["tcp_buf"] < 4096) p["tcp_buf"] = 65536;
    p["yield_pm"] = (int64_t)(r.chance(0.5) ? 0 : 200);
    plan.sp["tp"] = C_TPS[r.below(7)];
    // (TLS: a record arriving in pieces keeps XCM's descriptor readable until it is complete - see DESIGN.md, observations;
    //  the owner's loop would burn the step budget in the gaps)
    if (plan.sp["tp"] == "tls" || plan.sp["tp"] == "btls" || plan.sp["tp"] == "utls") p["seg_policy"] = 0;
    p["by_value"] = r.chance(0.7);
    p["many_sans"] = r.chance(0.3);
    int nraw = (int)r.range(1, 5);
    p["nraw"] = nraw;
    p["lib_client"] = r.chance(0.6);
    for (int i = 0; i < nraw; i++) {
        int task = 400 + i;
        p[strf("raw%d_slot", i)] = (int64_t)r.below(3);
        int nops = (int)r.range(1, 10);
        for (int k = 0; k < nops; k++) {
            int c = (int)r.below(100);
            if (c < 45) plan.ops.push_back(Op{task, "get", {(int64_t)r.below(C_NNAMES)}, "", {}});
            else if (c < 60) plan.ops.push_back(Op{task, "get_all", {}, "", {}});
            else if (c < 68) plan.ops.push_back(Op{task, "bad_size", {(int64_t)(r.chance(0.5) ? r.below(200) : r.range(30000, 40000))}, "", {}});
            else if (c < 74) plan.ops.push_back(Op{task, "bad_type", {(int64_t)r.range(5, 1000000)}, "", {}});
            else if (c < 80) plan.ops.push_back(Op{task, "noterm", {(int64_t)(r.next() >> 8)}, "", {}});
            else if (c < 83) plan.ops.push_back(Op{task, "noread", {(int64_t)r.range(1, 12), (int64_t)r.below(2)}, "", {}});
            else if (c < 86) { Op o{task, "pipeline", {}, "", {}}; int n = (int)r.range(2, 12); for (int i = 0; i < n; i++) o.n.push_back((int64_t)r.below(C_NNAMES)); plan.ops.push_back(o); }
            else if (c < 92) plan.ops.push_back(Op{task, "reconnect", {(int64_t)r.below(3)}, "", {}});
            else if (c < 96) plan.ops.push_back(Op{task, "disconnect_mid", {(int64_t)r.below(C_NNAMES)}, "", {}});
            else plan.ops.push_back(Op{task, "sleep", {(int64_t)r.below(3000)}, "", {}});
        }
    }
    p["step_budget"] = 1200000;
}

// ------------------------------------------------------------------ raw control client (simulated process 2)
static void scan_for_key(const std::string &dgram, const char *who) {
    if (!CX2->key_by_value || CX2->key_pem_body.size() < 16) return;
    // the part of the PEM body that only the private key has: its head is the algorithm identifier every P-256 object carries,
    // its tail the public point that the certificate carries too
    for (size_t off = 48; off + 16 <= std::min<size_t>(CX2->key_pem_body.size(), 92); off += 1) {
        if (dgram.find(CX2->key_pem_body.substr(off, 16)) != std::string::npos) {
            G->violation("C14.key_disclosed", "%s: a control-interface reply datagram contains 16 bytes of the PEM body of tls.key (key offset %zu)", who, off);
            return;
        }
    }
}

static int raw_connect(const std::string &path) {
    int fd = k::socket(AF_UNIX, SOCK_SEQPACKET, 0);
    if (fd < 0) return -1;
    struct timeval tv = {0, 400000};
    k::setsockopt(fd, SOL_SOCKET, SO_RCVTIMEO, &tv, sizeof(tv));
    k::setsockopt(fd, SOL_SOCKET, SO_SNDTIMEO, &tv, sizeof(tv));
    sockaddr_un a;
    memset(&a, 0, sizeof(a));
    a.sun_family = AF_UNIX;
    snprintf(a.sun_path, sizeof(a.sun_path), "%s", path.c_str());
    if (k::connect(fd, (sockaddr *)&a, sizeof(a)) < 0) { k::close(fd); return -1; }
    return fd;
}

static void parse_reply(const std::string &d, Reply &rp) {
    if (d.size() != MSG_SZ) { rp.type = -2; return; }
    int32_t type;
    memcpy(&type, d.data(), 4);
    rp.type = type;
    if (rp.kind == 0) {
        if (type == T_GET_REJ) { int32_t e; memcpy(&e, d.data() + 8, 4); rp.rej_errno = e; }
        else if (type == T_GET_CFM) {
            int32_t vt; memcpy(&vt, d.data() + 8 + 64, 4); rp.value_type = vt;
            uint64_t vl; memcpy(&vl, d.data() + 8 + 64 + 8 + 512, 8); rp.value_len = vl;
            rp.value.assign(d.data() + 8 + 64 + 8, std::min<uint64_t>(vl, 512));
        }
    } else {
        uint64_t n; memcpy(&n, d.data() + 8 + 64 * ATTR_SZ, 8);
        rp.attrs_len = n;
        for (uint64_t i = 0; i < std::min<uint64_t>(n, 64); i++) {
            const char *a = d.data() + 8 + i * ATTR_SZ;
            std::string name(a, strnlen(a, 64));
            uint64_t vl; memcpy(&vl, a + 64 + 8 + 512, 8);
            rp.all.emplace_back(name, std::string(a + 64 + 8, std::min<uint64_t>(vl, 512)) + (vl > 512 ? strf("<len %llu>", (unsigned long long)vl) : std::string()));
        }
    }
}

static void raw_client_task(const Plan *pl, int idx) {
    block_until([] { return CX2->owner_ready || CX2->owner_failed; }, -1, "wait for owner");
    if (CX2->owner_failed || G->stopping) { CX2->clients_left--; return; }
    int slot = (int)pl->P(strf("raw%d_slot", idx)) % (int)CX2->paths.size();
    int fd = raw_connect(CX2->paths[(size_t)slot]);
    bool first = true;
    std::string who = strf("raw control client %d on %s", idx, CX2->socks[(size_t)slot]->label.c_str());
    auto exchange = [&](const std::string &req, Reply *rp) {
        if (fd < 0) return false;
        if (k::send(fd, req.data(), req.size(), 0) < 0) return false;
        std::string buf(MSG_SZ + 64, '\0');
        ssize_t n = k::recv(fd, &buf[0], buf.size(), 0);
        if (n <= 0) {
            // no reply in time (the owner serves its control interface only every few wake-ups): the pairing of
            // requests and replies on this session is gone - start a new one
            k::close(fd);
            fd = raw_connect(CX2->paths[(size_t)slot]);
            first = true;
            return false;
        }
        buf.resize((size_t)n);
        scan_for_key(buf, who.c_str());
        if (rp) parse_reply(buf, *rp);
        return true;
    };
    for (auto &op : pl->ops) {
        if (op.task != 400 + idx || G->stopping) continue;
        std::string req(MSG_SZ, '\0');
        if (op.kind == "get" || op.kind == "disconnect_mid") {
            int32_t t = T_GET_REQ;
            memcpy(&req[0], &t, 4);
            std::string name = C_NAMES[op.arg(0) % C_NNAMES];
            memcpy(&req[8], name.c_str(), name.size() + 1);
            if (op.kind == "disconnect_mid") { if (fd >= 0) { k::send(fd, req.data(), req.size(), 0); k::close(fd); } fd = raw_connect(CX2->paths[(size_t)slot]); first = true; continue; }
            Reply rp; rp.slot = slot; rp.kind = 0; rp.name = name; rp.first_on_session = first;
            if (exchange(req, &rp)) { CX2->replies.push_back(rp); first = false; }
        } else if (op.kind == "get_all") {
            int32_t t = T_ALL_REQ;
            memcpy(&req[0], &t, 4);
            Reply rp; rp.slot = slot; rp.kind = 1; rp.first_on_session = first;
            if (exchange(req, &rp)) { CX2->replies.push_back(rp); first = false; }
        } else if (op.kind == "bad_size") {
            req.resize((size_t)op.arg(0));
            if (fd >= 0) k::send(fd, req.data(), req.size(), 0);
            // the owner drops such a session: start a new one
            task_sleep(2 * MS);
            if (fd >= 0) k::close(fd);
            fd = raw_connect(CX2->paths[(size_t)slot]);
            first = true;
        } else if (op.kind == "bad_type") {
            int32_t t = (int32_t)op.arg(0);
            memcpy(&req[0], &t, 4);
            if (fd >= 0) k::send(fd, req.data(), req.size(), 0);
            task_sleep(2 * MS);
            if (fd >= 0) k::close(fd);
            fd = raw_connect(CX2->paths[(size_t)slot]);
            first = true;
        } else if (op.kind == "noterm") {
            int32_t t = T_GET_REQ;
            memcpy(&req[0], &t, 4);
            Rng rr((uint64_t)op.arg(0));
            for (size_t i = 8; i < MSG_SZ; i++) req[i] = (char)('a' + rr.below(26));   // no NUL anywhere in (or after) the name field
            Reply rp; rp.slot = slot; rp.kind = 0; rp.name = "<unterminated>";
            if (exchange(req, &rp)) {
                first = false;
                if (rp.type == T_GET_CFM) G->violation("C14.unterminated_name_answered", "%s: a request whose attribute name has no terminating NUL was answered with a value", who.c_str());
            }
        } else if (op.kind == "noread") {
            // pipeline requests without reading the replies (the owner's send buffer towards us fills up)
            int32_t t = op.arg(1) ? T_ALL_REQ : T_GET_REQ;
            memcpy(&req[0], &t, 4);
            memcpy(&req[8], "xcm.type", 9);
            for (int i = 0; i < (int)op.arg(0) && fd >= 0; i++) if (k::send(fd, req.data(), req.size(), 0) < 0) break;
            task_sleep(5 * MS);
            if (fd >= 0) k::close(fd);
            fd = raw_connect(CX2->paths[(size_t)slot]);
            first = true;
        } else if (op.kind == "pipeline") {
            // several requests back to back, the replies read afterwards: each must answer its own request, in order
            if (fd < 0) continue;
            std::vector<std::string> names;
            bool ok = true;
            for (auto v : op.n) {
                std::string rq(MSG_SZ, '\0');
                int32_t t = T_GET_REQ;
                memcpy(&rq[0], &t, 4);
                std::string name = C_NAMES[v % (int64_t)C_NNAMES];
                memcpy(&rq[8], name.c_str(), name.size() + 1);
                if (k::send(fd, rq.data(), rq.size(), 0) < 0) { ok = false; break; }
                names.push_back(name);
            }
            task_sleep(3 * MS);
            for (size_t i = 0; i < names.size() && ok; i++) {
                std::string buf(MSG_SZ + 64, '\0');
                ssize_t n = k::recv(fd, &buf[0], buf.size(), 0);
                if (n <= 0) {
                    if (i > 0 && !G->stopping && !CX2->socks[(size_t)slot]->closed)
                        G->violation("C14.reply_missing", "%s: %zu requests were sent back to back, only %zu replies arrived", who.c_str(), names.size(), i);
                    ok = false;
                    break;
                }
                buf.resize((size_t)n);
                scan_for_key(buf, who.c_str());
                Reply rp; rp.slot = slot; rp.kind = 0; rp.name = names[i]; rp.first_on_session = first && i == 0;
                parse_reply(buf, rp);
                CX2->replies.push_back(rp);
                G->count("probe.ctl_pipelined_reply");
            }
            first = false;
            if (!ok) { k::close(fd); fd = raw_connect(CX2->paths[(size_t)slot]); first = true; }
        } else if (op.kind == "reconnect") {
            if (fd >= 0) k::close(fd);
            slot = (int)op.arg(0) % (int)CX2->paths.size();
            who = strf("raw control client %d on %s", idx, CX2->socks[(size_t)slot]->label.c_str());
            fd = raw_connect(CX2->paths[(size_t)slot]);
            first = true;
        } else if (op.kind == "sleep") task_sleep(op.arg(0) * US);
    }
    if (fd >= 0) k::close(fd);
    CX2->clients_left--;
}

// ------------------------------------------------------------------ libxcmctl client
struct LibAll { Reply *rp; };
static void lib_client_task(const Plan *pl) {
    block_until([] { return CX2->owner_ready || CX2->owner_failed; }, -1, "wait for owner");
    if (CX2->owner_failed || G->stopping) { CX2->clients_left--; return; }
    struct Ref { pid_t pid; int64_t ref; };
    std::vector<Ref> refs;
    xcmc_list([](pid_t pid, int64_t ref, void *d) { ((std::vector<Ref> *)d)->push_back(Ref{pid, ref}); }, &refs);
    bool all_open = true;
    for (auto *x : CX2->socks) if (x->closed) all_open = false;
    if (refs.size() != CX2->paths.size() && CX2->tp != "utls" && all_open && CX2->socks.size() == 3)
        G->violation("C14.list", "xcmc_list reports %zu sockets, the owner has %zu with control files", refs.size(), CX2->paths.size());
    Rng r((uint64_t)pl->P("s_app", 4) ^ 0x11b);
    for (auto &ref : refs) {
        if (G->stopping) break;
        // which owner socket is this?
        int slot = -1;
        for (size_t i = 0; i < CX2->paths.size(); i++) if (CX2->paths[i] == strf("/ctl/ctl-%d-%lld", (int)ref.pid, (long long)ref.ref)) slot = (int)i;
        if (slot < 0) continue;
        struct xcmc_session *s = xcmc_open(ref.pid, ref.ref);
        if (!s) { G->count("probe.xcmc_open_failed"); continue; }
        bool first = true;
        int n = (int)r.range(1, 6);
        for (int k = 0; k < n && !G->stopping; k++) {
            if (r.chance(0.3)) {
                Reply rp; rp.slot = slot; rp.kind = 1; rp.via_lib = true; rp.first_on_session = first;
                errno = 0;
                rp.lib_rc = xcmc_attr_get_all(s, [](const char *name, enum xcm_attr_type, void *v, size_t len, void *d) { ((Reply *)d)->all.emplace_back(name, std::string((const char *)v, std::min<size_t>(len, 512))); }, &rp);
                rp.lib_errno = errno;
                rp.attrs_len = rp.all.size();
                if (rp.lib_rc < 0 && (rp.lib_errno == EAGAIN || rp.lib_errno == EPIPE || rp.lib_errno == ECONNRESET)) break;   // timed out: this session's request/reply pairing is gone
                CX2->replies.push_back(rp);
            } else {
                Reply rp; rp.slot = slot; rp.kind = 0; rp.via_lib = true; rp.first_on_session = first;
                rp.name = C_NAMES[r.below(C_NNAMES)];
                char buf[512];
                enum xcm_attr_type t = (enum xcm_attr_type)-1;
                errno = 0;
                rp.lib_rc = xcmc_attr_get(s, rp.name.c_str(), &t, buf, sizeof(buf));
                rp.lib_errno = errno;
                if (rp.lib_rc >= 0) { rp.type = T_GET_CFM; rp.value_type = (int)t; rp.value_len = (uint64_t)rp.lib_rc; rp.value.assign(buf, (size_t)rp.lib_rc); }
                else { rp.type = T_GET_REJ; rp.rej_errno = rp.lib_errno; }
                if (rp.lib_rc < 0 && (rp.lib_errno == EAGAIN || rp.lib_errno == EPIPE || rp.lib_errno == ECONNRESET)) break;
                CX2->replies.push_back(rp);
            }
            first = false;
        }
        xcmc_close(s);
    }
    CX2->clients_left--;
}

// ------------------------------------------------------------------ owner
static bool stable_name(const std::string &n) {
    static const char *st[] = {"xcm.type", "xcm.transport", "xcm.service", "xcm.max_msg_size", "xcm.local_addr", "tcp.keepalive_time", "tls.auth", "tls.check_time", "tls.cert", "tls.tc", "tls.key_file",
                               "dns.algorithm", "no.such.attr", "xcm", "", "tls.key"};
    for (auto s : st) if (n == s) return true;
    return false;
}

static void verify_replies() {
    // (a utls socket has control files of its own and of its UX and TLS sub-sockets, whose answers legitimately differ)
    if (CX2->tp == "utls") return;
    for (auto &rp : CX2->replies) {
        XSock *x = CX2->socks[(size_t)rp.slot];
        if (x->closed) continue;
        std::string who = strf("%s client on %s", rp.via_lib ? "libxcmctl" : "raw control", x->label.c_str());
        G->count("probe.ctl_reply_verified");
        if (rp.kind == 0) {
            if (rp.type != T_GET_CFM && rp.type != T_GET_REJ) { G->violation("C14.reply_type", "%s: reply to a well-formed get request for \"%s\" has type %d", who.c_str(), rp.name.c_str(), rp.type); continue; }
            if (rp.name == "tls.key" && rp.type == T_GET_CFM) { G->violation("C14.key_disclosed", "%s: the control interface answered a query for tls.key with a value", who.c_str()); continue; }
            if (rp.type == T_GET_CFM && rp.value_len > 512) { G->violation("C14.reply_value_too_long", "%s: reply for \"%s\" announces a %llu-byte value (slot size 512)", who.c_str(), rp.name.c_str(), (unsigned long long)rp.value_len); continue; }
            if (!stable_name(rp.name) || rp.name == "tls.key") continue;
            char buf[512];
            enum xcm_attr_type t = (enum xcm_attr_type)-1;
            errno = 0;
            int rc = x_attr_get(x, rp.name.c_str(), &t, buf, sizeof(buf));
            int e = errno;
            if (rc >= 0) {
                if (rp.type != T_GET_CFM) G->violation("C14.reply_differs", "%s: \"%s\" is readable in-process (%d bytes) but the control interface rejected it with %s", who.c_str(), rp.name.c_str(), rc, strerror(rp.rej_errno));
                else if ((int)rp.value_len != rc || memcmp(rp.value.data(), buf, (size_t)rc) != 0 || rp.value_type != (int)t)
                    G->violation("C14.reply_differs", "%s: \"%s\": control interface says %llu bytes of type %d, xcm_attr_get says %d bytes of type %d (or the bytes differ)", who.c_str(), rp.name.c_str(), (unsigned long long)rp.value_len, rp.value_type, rc, (int)t);
            } else {
                if (rp.type == T_GET_CFM) G->violation("C14.reply_differs", "%s: \"%s\" fails in-process with %s but the control interface returned a %llu-byte value", who.c_str(), rp.name.c_str(), strerror(e), (unsigned long long)rp.value_len);
                else if (rp.rej_errno != e) G->violation("C14.reply_errno", "%s: \"%s\" fails in-process with %s, the control interface rejected it with %s", who.c_str(), rp.name.c_str(), strerror(e), strerror(rp.rej_errno));
            }
        } else {
            if (rp.via_lib) {
                if (rp.lib_rc < 0) { G->violation(rp.first_on_session ? "C14.get_all_first" : "C14.get_all_failed", "%s: xcmc_attr_get_all failed with %s%s", who.c_str(), strerror(rp.lib_errno), rp.first_on_session ? " as the first request of its session" : ""); continue; }
            } else if (rp.type != T_ALL_CFM) { G->violation(rp.first_on_session ? "C14.get_all_first" : "C14.reply_type", "%s: reply to get-all has type %d instead of %d%s", who.c_str(), rp.type, T_ALL_CFM, rp.first_on_session ? " (first request of its session: the reply type is whatever the buffer held)" : ""); }
            if (rp.attrs_len > 64) { G->violation("C14.reply_too_many", "%s: get-all reply announces %llu attributes (capacity 64)", who.c_str(), (unsigned long long)rp.attrs_len); continue; }
            // in-process reference
            std::map<std::string, std::string> ref;
            {
                ApiScope a("xcm_attr_get_all", x, x->nonblocking);
                xcm_attr_get_all(x->s, [](const char *name, enum xcm_attr_type, void *v, size_t len, void *d) { (*(std::map<std::string, std::string> *)d)[name] = std::string((const char *)v, len); }, &ref);
            }
            for (auto &kv : rp.all) {
                if (kv.first == "tls.key") { G->violation("C14.key_disclosed", "%s: get-all reply contains tls.key", who.c_str()); continue; }
                auto it = ref.find(kv.first);
                if (it == ref.end()) { G->violation("C14.reply_differs", "%s: get-all reply contains \"%s\", which xcm_attr_get_all does not report in-process", who.c_str(), kv.first.substr(0, 64).c_str()); continue; }
                if (kv.second.size() > 512) G->violation("C14.reply_value_too_long", "%s: get-all entry \"%s\" carries %s (slot size 512)", who.c_str(), kv.first.c_str(), kv.second.substr(512).c_str());
                else if (stable_name(kv.first) && it->second.size() <= 512 && kv.second != it->second)
                    G->violation("C14.reply_differs", "%s: get-all entry \"%s\" (%zu bytes) differs from the in-process value (%zu bytes)", who.c_str(), kv.first.c_str(), kv.second.size(), it->second.size());
            }
        }
    }
}

static void owner_task(const Plan *pl) {
    std::string tp = CX2->tp;
    bool stream = tp == "btcp" || tp == "btls";
    bool tlsb = tp == "tls" || tp == "btls" || tp == "utls";
    const BasicPki &pk = basic_pki();
    auto mkattrs = [&](bool client_side) {
        struct xcm_attr_map *m = xcm_attr_map_create();
        if (stream) xcm_attr_map_add_str(m, "xcm.service", "bytestream");
        if (tlsb && pl->P("by_value")) {
            const Cert &leaf = client_side ? *pk.leaf_b : *pk.leaf_a;
            xcm_attr_map_add_bin(m, "tls.cert", leaf.cert_pem.data(), leaf.cert_pem.size());
            xcm_attr_map_add_bin(m, "tls.key", leaf.key_pem.data(), leaf.key_pem.size());
            xcm_attr_map_add_bin(m, "tls.tc", pk.root->cert_pem.data(), pk.root->cert_pem.size());
        }
        return m;
    };
    std::string saddr = tp == "ux" ? "ux:ctl-srv" : tp == "uxf" ? "uxf:/tmp/ctl.sock" : strf("%s:127.0.0.1:7500", tp.c_str());
    auto newest_ctl_file = [&]() {
        std::string found;
        for (auto &n : K->list_dir("/ctl")) { std::string p = "/ctl/" + n; if (std::find(CX2->paths.begin(), CX2->paths.end(), p) == CX2->paths.end()) found = p; }
        return found;
    };
    struct xcm_attr_map *m = mkattrs(false);
    XSock *srv = x_server(saddr, m, true, "srv");
    xcm_attr_map_destroy(m);
    if (!srv->s) { G->violation("HARNESS.server", "ctl family: xcm_server failed: %s", strerror(errno)); CX2->owner_failed = true; return; }
    CX2->socks.push_back(srv); CX2->paths.push_back(newest_ctl_file());
    m = mkattrs(true);
    XSock *cli = x_connect(saddr, m, true, "cli");
    xcm_attr_map_destroy(m);
    if (!cli->s) { G->violation("HARNESS.connect", "ctl family: xcm_connect failed: %s", strerror(errno)); CX2->owner_failed = true; x_close(srv); return; }
    CX2->socks.push_back(cli); CX2->paths.push_back(newest_ctl_file());
    XSock *acc = nullptr;
    uint8_t buf[70000];
    for (int i = 0; i < 2000 && !acc && !G->stopping; i++) { acc = x_accept(srv, nullptr, "acc"); if (!acc) { x_finish(cli); task_sleep(200 * US); } }
    if (!acc) { G->violation("HARNESS.accept", "ctl family: never accepted"); CX2->owner_failed = true; x_close(cli); x_close(srv); return; }
    CX2->socks.push_back(acc); CX2->paths.push_back(newest_ctl_file());
    for (auto &p : CX2->paths) if (p.empty()) { G->violation("C14.ctl_file_missing", "a socket was created with XCM_CTL set but no new control file appeared"); CX2->owner_failed = true; }
    for (int i = 0; i < 400 && !G->stopping; i++) { if (x_finish(cli) == 0 && x_finish(acc) == 0) break; task_sleep(200 * US); }
    CX2->owner_ready = true;
    // ping-pong until every control client is done (and at least a few rounds)
    int round = 0;
    bool broken = false;
    auto wait_any = [&]() {
        struct pollfd pf[3] = {{x_fd(srv), POLLIN, 0}, {x_fd(cli), POLLIN, 0}, {x_fd(acc), POLLIN, 0}};
        if (k::poll(pf, 3, 20) <= 0) return;
        // an event loop serves every socket that asks for attention (here: possibly only its control interface)
        if (pf[0].revents) { XSock *extra = x_accept(srv, nullptr, "extra"); if (extra) x_close(extra); }
        if (pf[1].revents) x_finish(cli);
        if (pf[2].revents) x_finish(acc);
    };
    while ((CX2->clients_left > 0 || round < 6) && !G->stopping && !broken && round < 4000) {
        size_t len = 1 + (size_t)G->r_app.below(stream ? 3000 : 3000);
        std::string msg = make_payload(pl->seed, 9, 0, round, len);
        XSock *from = (round & 1) ? acc : cli, *to = (round & 1) ? cli : acc;
        size_t sent = 0, got = 0;
        x_await(srv, XCM_SO_ACCEPTABLE);
        for (int spin = 0; spin < 100000 && (sent < msg.size() || got < msg.size()) && !G->stopping; spin++) {
            if (sent < msg.size()) {
                int rc = x_send(from, msg.data() + sent, msg.size() - sent);
                if (rc >= 0) sent = stream ? sent + (size_t)rc : msg.size();
                else if (errno != EAGAIN) { broken = true; break; }
            }
            int rc = x_receive(to, buf, stream ? std::min<size_t>(sizeof(buf), msg.size() - got) : 65535);
            if (rc > 0) got = stream ? got + (size_t)rc : msg.size();
            else if (rc == 0 || errno != EAGAIN) { broken = true; break; }
            if (sent < msg.size() || got < msg.size()) {
                x_await(from, sent < msg.size() ? XCM_SO_SENDABLE : 0);
                x_await(to, XCM_SO_RECEIVABLE);
                wait_any();
            }
        }
        round++;
        // idle gaps in which only the control interface has work for the owner
        if ((round % 3) == 0) { x_await(cli, XCM_SO_RECEIVABLE); x_await(acc, XCM_SO_RECEIVABLE); wait_any(); x_receive(cli, buf, 64); x_receive(acc, buf, 64); x_finish(srv); }
    }
    if (broken && !G->stopping) G->violation("C14.data_path_broken", "the owner's own connection failed (%s) while control clients were active", strerror(errno));
    G->stat["probe.owner_rounds"] = round;
    verify_replies();
    x_close(acc);
    x_close(cli);
    x_close(srv);
}

static void setup(const Plan &plan) {
    delete CX2;
    CX2 = new CCtx();
    CX2->tp = plan.S("tp", "tcp");
    install_basic_tls_files("/cert");
    K->mkdir_p("/tmp");
    K->mkdir_p("/ctl");
    K->env["XCM_CTL"] = "/ctl";
    bool tlsb = CX2->tp == "tls" || CX2->tp == "btls" || CX2->tp == "utls";
    if (tlsb && plan.P("by_value")) {
        CX2->key_by_value = true;
        // the base64 body of both keys handed over by value
        for (const Cert *c : {basic_pki().leaf_a.get(), basic_pki().leaf_b.get()}) {
            std::string pem = c->key_pem;
            size_t a = pem.find('\n'), b = pem.rfind("-----END");
            if (a != std::string::npos && b != std::string::npos && b > a) { std::string body = pem.substr(a + 1, b - a - 1); body.erase(std::remove(body.begin(), body.end(), '\n'), body.end()); if (CX2->key_pem_body.empty()) CX2->key_pem_body = body; }
        }
    }
    G->alias["C08.abort"] = "C14.owner_crashed";
    G->alias["C08.exit"] = "C14.owner_crashed";
    G->alias["C08.leak_file"] = "C14.ctl_file_left";
    G->alias["C01.content"] = "C14.data_path_corrupted";
    G->alias["C01.length"] = "C14.data_path_corrupted";
    G->alias["C01.phantom"] = "C14.data_path_corrupted";
    G->alias["C02.stream_content"] = "C14.data_path_corrupted";
    const Plan *pl = &G->plan;
    int nraw = (int)plan.P("nraw", 1);
    CX2->clients_left = nraw + (plan.P("lib_client") ? 1 : 0);
    G->spawn("owner", [pl] { owner_task(pl); }, 1, 0);
    for (int i = 0; i < nraw; i++) G->spawn(strf("rawctl%d", i), [pl, i] { raw_client_task(pl, i); }, 2, 0);
    if (plan.P("lib_client")) G->spawn("xcmc", [pl] { lib_client_task(pl); }, 3, 0);
}

static void finalize(const Plan &plan, EndReason r) {
    if (r == EndReason::QUIESCENT) {
        std::string s;
        for (auto &t : G->tasks) if (t->st != Task::DONE) s += t->name + "(" + t->parked_why + ") ";
        G->violation("C14.stuck", "global quiescence with unfinished tasks: %s", s.c_str());
    } else if (r == EndReason::BUDGET) G->violation("C14.spin", "step budget exhausted (%llu steps)", (unsigned long long)G->steps);
    g_run_nontrivial = G->stat.count("probe.ctl_reply_verified") > 0;
    (void)plan;
}

static struct Reg_ctl { Reg_ctl() { register_family(Family{"ctl", gen, setup, finalize, nullptr, nullptr}); } } reg;

}  // namespace xs
