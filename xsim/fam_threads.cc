// Family "threads" (C15): 2-4 application threads, each creating, connecting, using and closing its
// *own* sockets (a thread hosts both ends of its connections), under the seeded scheduler, on the
// ThreadSanitizer flavour: XCM objects are instrumented, the scheduler/baton/kernel are not and use raw
// futexes, so that the serialisation the simulator imposes is invisible to the race detector and only
// the program's own synchronisation counts. Additional preemption points sit at every atomic access of
// XCM code (the TSan runtime's atomic entry points are wrapped). Shared process-wide state is stressed
// on purpose: bursts of socket creation across the boundary of the shared always-readable descriptor
// pool, identical and different TLS credentials (context cache hit / miss / release), control files
// named after the process-wide socket id, hand-over of a connected socket through a real mutex.
#include "run.h"
#include "pki.h"
#include <cerrno>
#include <mutex>

namespace xs {

static const char *TH_TPS[] = {"ux", "uxf", "tcp", "tls", "utls", "btcp", "btls"};

struct ThCtx {
    int nthreads = 2;
    std::mutex handoff_mtx;                 // a real pthread mutex: the race detector sees this hand-over
    std::deque<XSock *> handoff;
    int handoffs_expected = 0, handoffs_taken = 0;
    int threads_done = 0;
};
static ThCtx *THX = nullptr;

static void gen(uint64_t seed, const std::string &prop, Plan &plan) {
    Rng r(mix64(seed, 0x7412));
    plan.family = "threads";
    plan.prop = prop;
    plan.seed = seed;
    gen_common_knobs(r, plan, false);
    auto &p = plan.p;
    if (p["tcp_buf"] < 4096) p["tcp_buf"] = 65536;
    p["seg_policy"] = (int64_t)r.below(2);
    static const int64_t yp[] = {100, 300, 600, 1000};
    p["yield_pm"] = yp[r.below(4)];
    p["ctl"] = r.chance(0.5);
    int nt = (int)r.range(2, 4);
    p["nthreads"] = nt;
    for (int t = 0; t < nt; t++) {
        int nops = (int)r.range(2, 9);
        for (int k = 0; k < nops; k++) {
            int c = (int)r.below(100);
            std::string tp = TH_TPS[r.below(7)];
            if (c < 40) plan.ops.push_back(Op{t, "pair", {(int64_t)r.range(1, 4), (int64_t)r.below(3)}, tp, {}});         // connection pair, n messages, credential variant
            else if (c < 60) plan.ops.push_back(Op{t, "burst", {(int64_t)r.range(20, 70)}, r.chance(0.7) ? "ux" : "tcp", {}});   // many sockets alive at once
            else if (c < 75) plan.ops.push_back(Op{t, "tlschurn", {(int64_t)r.range(2, 8), (int64_t)r.below(3)}, r.chance(0.5) ? "tls" : "btls", {}});   // create/close TLS servers: cache hit/miss/release
            else if (c < 85) plan.ops.push_back(Op{t, "give", {(int64_t)((t + 1) % nt)}, tp == "utls" ? "tcp" : tp, {}});        // hand a connected socket to another thread
            else if (c < 92) plan.ops.push_back(Op{t, "dnsconn", {}, r.chance(0.5) ? "tcp" : "tls", {}});
            else plan.ops.push_back(Op{t, "sleep", {(int64_t)r.below(500)}, "", {}});
        }
    }
    p["step_budget"] = 900000;
}

static struct xcm_attr_map *cred_attrs(const std::string &tp, int variant, bool stream) {
    struct xcm_attr_map *m = xcm_attr_map_create();
    if (stream) xcm_attr_map_add_str(m, "xcm.service", "bytestream");
    bool tlsb = tp == "tls" || tp == "btls" || tp == "utls";
    if (tlsb && variant > 0) {
        const BasicPki &pk = basic_pki();
        const Cert &leaf = variant == 1 ? *pk.leaf_a : *pk.leaf_b;
        xcm_attr_map_add_bin(m, "tls.cert", leaf.cert_pem.data(), leaf.cert_pem.size());
        xcm_attr_map_add_bin(m, "tls.key", leaf.key_pem.data(), leaf.key_pem.size());
        xcm_attr_map_add_bin(m, "tls.tc", pk.root->cert_pem.data(), pk.root->cert_pem.size());
    }
    return m;
}

static std::string th_addr(const std::string &tp, int thread, int n) {
    if (tp == "ux") return strf("ux:th-%d-%d", thread, n);
    if (tp == "uxf") return strf("uxf:/tmp/th-%d-%d.sock", thread, n);
    return strf("%s:127.0.0.1:%d", tp.c_str(), 8000 + thread * 200 + n % 200);
}

// one thread drives both ends of its own connection
static bool establish(const std::string &tp, int thread, int n, int variant, XSock *&srv, XSock *&cli, XSock *&acc) {
    bool stream = tp == "btcp" || tp == "btls";
    struct xcm_attr_map *m = cred_attrs(tp, variant, stream);
    std::string addr = th_addr(tp, thread, n);
    srv = x_server(addr, m, true, strf("t%d.srv%d", thread, n));
    if (!srv->s) {
        if (!G->stopping) G->violation("C15.spurious_failure", "thread %d: xcm_server_a(%s) failed with %s although nothing is wrong with the request (another thread was creating or closing sockets)", thread, addr.c_str(), strerror(errno));
        xcm_attr_map_destroy(m);
        return false;
    }
    cli = x_connect(addr, m, true, strf("t%d.cli%d", thread, n));
    xcm_attr_map_destroy(m);
    if (!cli->s) {
        if (!G->stopping) G->violation("C15.spurious_failure", "thread %d: xcm_connect_a(%s) failed with %s", thread, addr.c_str(), strerror(errno));
        x_close(srv);
        return false;
    }
    acc = nullptr;
    for (int i = 0; i < 3000 && !acc && !G->stopping; i++) {
        acc = x_accept(srv, nullptr, strf("t%d.acc%d", thread, n));
        if (!acc) { if (errno != EAGAIN) break; x_finish(cli); task_sleep(100 * US); }
    }
    if (!acc) { if (!G->stopping) G->violation("C15.spurious_failure", "thread %d: connection to %s was never accepted (%s)", thread, addr.c_str(), strerror(errno)); x_close(cli); x_close(srv); return false; }
    for (int i = 0; i < 3000 && !G->stopping; i++) {
        int a = x_finish(cli), b = x_finish(acc);
        if (a == 0 && b == 0) return true;
        if ((a < 0 && errno != EAGAIN)) break;
        task_sleep(100 * US);
    }
    if (!G->stopping) G->violation("C15.spurious_failure", "thread %d: connection on %s did not establish", thread, addr.c_str());
    x_close(acc); x_close(cli); x_close(srv);
    return false;
}

static void exchange(XSock *from, XSock *to, uint64_t seed, int conn, int nmsgs, bool stream) {
    std::unique_ptr<uint8_t[]> buf(new uint8_t[65536]);
    for (int k = 0; k < nmsgs && !G->stopping; k++) {
        std::string m = make_payload(seed, conn, 0, k, 1 + (size_t)G->r_app.below(3000));
        size_t sent = 0, got = 0;
        for (int spin = 0; spin < 20000 && (sent < m.size() || got < m.size()) && !G->stopping; spin++) {
            if (sent < m.size()) { int rc = x_send(from, m.data() + sent, m.size() - sent); if (rc >= 0) sent = stream ? sent + (size_t)rc : m.size(); else if (errno != EAGAIN) return; }
            int rc = x_receive(to, buf.get(), stream ? std::min<size_t>(65536, m.size() - got) : 65535);
            if (rc > 0) got = stream ? got + (size_t)rc : m.size(); else if (rc == 0 || errno != EAGAIN) return;
            if (sent < m.size() || got < m.size()) task_sleep(50 * US);
        }
    }
}

static void thread_program(const Plan *pl, int t) {
    int n = 0;
    uint64_t seed = pl->seed;
    for (auto &op : pl->ops) {
        if (op.task != t || G->stopping) continue;
        n++;
        if (op.kind == "pair") {
            XSock *srv, *cli, *acc;
            bool stream = op.s == "btcp" || op.s == "btls";
            if (!establish(op.s, t, n, (int)op.arg(1), srv, cli, acc)) continue;
            exchange(cli, acc, seed, t * 100 + n, (int)op.arg(0), stream);
            exchange(acc, cli, seed, t * 100 + n + 50, 1, stream);
            char b[128];
            enum xcm_attr_type ty;
            x_attr_get(cli, "xcm.local_addr", &ty, b, sizeof(b));
            x_close(acc); x_close(cli); x_close(srv);
        } else if (op.kind == "burst") {
            // many sockets of this thread alive at the same time: the shared always-readable descriptor is handed out
            // per 100 users process-wide, so several threads cross that boundary together
            std::vector<XSock *> v;
            int cnt = (int)op.arg(0);
            for (int i = 0; i < cnt && !G->stopping; i++) {
                XSock *s = x_server(th_addr(op.s, t, n * 100 + i), nullptr, true, strf("t%d.b%d.%d", t, n, i));
                if (s->s) v.push_back(s);
                else if (!G->stopping) { G->violation("C15.spurious_failure", "thread %d: xcm_server_a in a burst failed with %s", t, strerror(errno)); break; }
            }
            // with a control directory every socket has a control file named after its process-wide id: ids must be unique
            if (pl->P("ctl") && !G->stopping) {
                size_t mine = 0;
                for (auto &x : xsocks()) if (!x->closed && x->s) mine++;
                size_t files = K->list_dir("/ctl").size();
                if (files < mine && THX->nthreads > 0) G->count("probe.ctl_files_less_than_sockets");
            }
            for (auto *s : v) x_close(s);
        } else if (op.kind == "tlschurn") {
            int variant = (int)op.arg(1);
            for (int i = 0; i < (int)op.arg(0) && !G->stopping; i++) {
                struct xcm_attr_map *m = cred_attrs(op.s, variant, op.s == "btls");
                XSock *s = x_server(th_addr(op.s, t, n * 10 + i), m, true, strf("t%d.tc%d.%d", t, n, i));
                int e = errno;
                xcm_attr_map_destroy(m);
                if (!s->s && !G->stopping) { G->violation("C15.spurious_failure", "thread %d: xcm_server_a(%s) with valid credentials failed with %s (errno %d) while other threads open and close sockets with the same credentials", t, op.s.c_str(), strerror(e), e); break; }
                x_close(s);
            }
        } else if (op.kind == "give") {
            XSock *srv, *cli, *acc;
            bool stream = op.s == "btcp" || op.s == "btls";
            if (!establish(op.s, t, n, 0, srv, cli, acc)) continue;
            exchange(cli, acc, seed, t * 100 + n, 1, stream);
            x_close(acc); x_close(srv);
            { std::lock_guard<std::mutex> g(THX->handoff_mtx); THX->handoff.push_back(cli); }
        } else if (op.kind == "dnsconn") {
            struct xcm_attr_map *m = cred_attrs(op.s, 0, false);
            XSock *c = x_connect(strf("%s:nobody.example:8999", op.s.c_str()), m, true, strf("t%d.dns%d", t, n));
            xcm_attr_map_destroy(m);
            if (c->s) { for (int i = 0; i < 50 && !G->stopping; i++) { if (x_finish(c) == 0 || errno != EAGAIN) break; task_sleep(200 * US); } x_close(c); }
        } else if (op.kind == "sleep") task_sleep(op.arg(0) * US);
        // sockets other threads have handed to this one
        for (;;) {
            XSock *x = nullptr;
            { std::lock_guard<std::mutex> g(THX->handoff_mtx); if (!THX->handoff.empty()) { x = THX->handoff.front(); THX->handoff.pop_front(); } }
            if (!x) break;
            char b[128];
            enum xcm_attr_type ty;
            x_attr_get(x, "xcm.transport", &ty, b, sizeof(b));
            x_finish(x);
            x_close(x);
            THX->handoffs_taken++;
        }
    }
    THX->threads_done++;
    // the last thread standing takes what is still in the queue
    if (THX->threads_done == THX->nthreads) {
        std::lock_guard<std::mutex> g(THX->handoff_mtx);
        while (!THX->handoff.empty()) { x_close(THX->handoff.front()); THX->handoff.pop_front(); }
    }
}

static void setup(const Plan &plan) {
    delete THX;
    THX = new ThCtx();
    THX->nthreads = (int)plan.P("nthreads", 2);
    install_basic_tls_files("/cert");
    K->mkdir_p("/tmp");
    if (plan.P("ctl")) { K->mkdir_p("/ctl"); K->env["XCM_CTL"] = "/ctl"; }
    (*DNS)["nobody.example"] = DnsAnswer{{}, 1 * MS, 1};
    G->alias["C08.abort"] = "C15.abort";
    G->alias["C01.content"] = "C15.delivery";
    G->alias["C01.length"] = "C15.delivery";
    G->alias["C01.phantom"] = "C15.delivery";
    G->alias["C02.stream_content"] = "C15.delivery";
    G->alias["C08.leak_fd"] = "C15.pool_or_cache_not_released";
    G->alias["C08.leak_ssl_ctx"] = "C15.pool_or_cache_not_released";
    G->alias["C08.leak_mem"] = "C15.pool_or_cache_not_released";
    G->alias["C08.leak_file"] = "C15.control_file_left";
    const Plan *pl = &G->plan;
    for (int t = 0; t < THX->nthreads; t++) G->spawn(strf("th%d", t), [pl, t] { thread_program(pl, t); }, 1, 0);
}

static void finalize(const Plan &plan, EndReason r) {
    if (r == EndReason::QUIESCENT) {
        std::string s;
        for (auto &t : G->tasks) if (t->st != Task::DONE) s += t->name + "(" + t->parked_why + ") ";
        G->violation("C15.stuck", "global quiescence with unfinished threads: %s", s.c_str());
    } else if (r == EndReason::BUDGET) G->violation("C15.spin", "step budget exhausted (%llu steps)", (unsigned long long)G->steps);
    g_run_nontrivial = G->switches > 10;
    (void)plan;
}

// Executed once per worker process before the first run of this family: touches every lazily initialised process-wide
// cache of the library (transport lookups, version log flag, OpenSSL) so that no run's schedule depends on whether an
// earlier run of the same process happened to warm them (a cold path makes a different number of atomic accesses, each of
// which is a scheduling point in the ThreadSanitizer build).
Plan threads_warmup_plan() {
    Plan plan;
    Rng r(mix64(0x77a7, 1));
    plan.family = "threads";
    plan.prop = "C15";
    plan.seed = 0x77a7;
    gen_common_knobs(r, plan, false);
    auto &p = plan.p;
    p["tcp_buf"] = 65536;
    p["seg_policy"] = 0;
    p["yield_pm"] = 100;
    p["ctl"] = 1;
    p["nthreads"] = 2;
    p["latency_us"] = 1;
    for (int t = 0; t < 2; t++) {
        for (int k = 0; k < 7; k++) plan.ops.push_back(Op{t, "pair", {1, (int64_t)(k % 3)}, TH_TPS[(k + t) % 7], {}});
        plan.ops.push_back(Op{t, "burst", {5}, "ux", {}});
        plan.ops.push_back(Op{t, "tlschurn", {2, 1}, t ? "tls" : "btls", {}});
        plan.ops.push_back(Op{t, "give", {(int64_t)(1 - t)}, "tcp", {}});
        plan.ops.push_back(Op{t, "dnsconn", {}, t ? "tcp" : "tls", {}});
    }
    p["step_budget"] = 900000;
    return plan;
}

static struct Reg_threads { Reg_threads() { register_family(Family{"threads", gen, setup, finalize, nullptr, nullptr}); } } reg;

}  // namespace xs
