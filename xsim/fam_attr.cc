// Family "attr" (C10, C11): one application thread takes a client/server pair through the phases of a
// socket's life - creation maps, resolving (slow resolver), TCP handshake pending (SYN held by the
// network), TLS handshaking, established, closed by the peer, failed - and at every phase
//   C10: probes attribute reads and writes with exact-size heap buffers (ASan), canaries, errno table,
//        "rejected set changes nothing" snapshots and arbitrary name strings;
//   C11: sets writable attributes to admissible values and later compares what xcm_attr_get reports and
//        what the simulated kernel socket's option table / source address say with what was accepted.
#include "run.h"
#include <cerrno>
#include <cmath>
#include <netinet/tcp.h>

namespace xs {

static const char *A_TPS[] = {"ux", "uxf", "tcp", "tls", "utls", "btcp", "btls", "utls_tls"};
static const char *CATALOGUE[] = {
    "xcm.blocking", "xcm.type", "xcm.transport", "xcm.service", "xcm.local_addr", "xcm.remote_addr", "xcm.max_msg_size", "xcm.to_app_msgs", "xcm.to_app_bytes",
    "xcm.from_app_msgs", "xcm.from_app_bytes", "xcm.to_lower_msgs", "xcm.to_lower_bytes", "xcm.from_lower_msgs", "xcm.from_lower_bytes", "dns.timeout", "dns.algorithm",
    "tcp.rtt", "tcp.total_retrans", "tcp.segs_in", "tcp.segs_out", "tcp.connect_timeout", "tcp.keepalive", "tcp.keepalive_time", "tcp.keepalive_interval", "tcp.keepalive_count",
    "tcp.user_timeout", "tls.cert_file", "tls.key_file", "tls.tc_file", "tls.crl_file", "tls.cert", "tls.key", "tls.tc", "tls.crl", "tls.client", "tls.auth", "tls.check_crl",
    "tls.check_time", "tls.verify_peer_name", "tls.peer_names", "tls.peer_subject_key_id", "tls.peer.cert.subject.cn", "tls.peer.cert.san.dns", "tls.peer.cert.san.dns[0]",
    "tls.peer.cert.san.emails", "tls.peer.cert.san.dirs", "tls.peer.cert.san.dirs[0].cn", "tls.peer.cert", "tls.peer", "tls", "xcm", "ipv6.scope"};
static const size_t NCAT = sizeof(CATALOGUE) / sizeof(CATALOGUE[0]);

struct Expect { bool have = false; int64_t i = 0; bool b = false; };
struct ASock {
    XSock *x = nullptr;
    std::string tp;
    std::map<std::string, Expect> exp;   // values accepted through sets / creation maps
    bool tcp_based = false;
};
struct ACtx {
    std::string tp, addr;
    ASock srv, cli, acc;
    Rng r{1};
};
static ACtx *AX = nullptr;

static void gen(uint64_t seed, const std::string &prop, Plan &plan) {
    Rng r(mix64(seed, 0xA77));
    plan.family = "attr";
    plan.prop = prop;
    plan.seed = seed;
    gen_common_knobs(r, plan, false);
    auto &p = plan.p;
    p["yield_pm"] = 0;
    if (p["tcp_buf"] < 4096) p["tcp_buf"] = 65536;
    p["latency_us"] = r.chance(0.5) ? 20000 : 300;      // how long the TCP handshake stays pending
    plan.sp["tp"] = A_TPS[r.below(8)];
    p["use_dns"] = r.chance(0.35);
    p["dns_delay_ms"] = r.chance(0.5) ? 30 : 1;
    p["ctl"] = r.chance(0.2);
    p["local_addr"] = r.chance(0.3);
    p["accept_override"] = r.chance(0.4);
    p["accept_blocking"] = r.chance(0.2);
    p["s_probe"] = (int64_t)(r.next() >> 8);
    // phases in order; each carries a number of probe / set rounds
    static const char *phases[] = {"fresh_server", "after_connect", "mid", "established", "peer_closed"};
    for (auto ph : phases) plan.ops.push_back(Op{0, "phase", {(int64_t)r.range(2, 10), (int64_t)r.range(0, 5)}, ph, {}});
    p["step_budget"] = 600000;
}

// ------------------------------------------------------------------ C10 probes
static std::vector<std::string> names_now(XSock *x) {
    std::vector<std::string> v;
    ApiScope a("xcm_attr_get_all", x, x->nonblocking);
    xcm_attr_get_all(x->s, [](const char *name, enum xcm_attr_type, void *, size_t, void *d) { ((std::vector<std::string> *)d)->push_back(name); }, &v);
    return v;
}

static std::string weird_name(Rng &r) {
    switch (r.below(10)) {
    case 0: return std::string(255, 'a');
    case 1: return std::string(256, 'b');
    case 2: return std::string(4096, 'c');
    case 3: { std::string s = "a"; int n = (int)r.range(60, 130); for (int i = 0; i < n; i++) s += ".a"; return s; }
    case 4: { std::string s = "tls"; int n = (int)r.range(60, 120); for (int i = 0; i < n; i++) s += "[0]"; return s; }
    case 5: return "";
    case 6: return "xcm..blocking";
    case 7: return "tls.peer.cert.san.dns[99999999999999999999]";
    case 8: return "xcm.blocking.";
    default: { std::string s; int n = (int)r.range(1, 40); for (int i = 0; i < n; i++) s += (char)(1 + r.below(254)); return s; }
    }
}

struct Snap { std::vector<std::pair<std::string, std::string>> kv; };
static bool is_volatile(const std::string &n) {
    return n.find("_bytes") != std::string::npos || n.find("_msgs") != std::string::npos || n == "tcp.rtt" || n == "tcp.total_retrans" || n == "tcp.segs_in" || n == "tcp.segs_out";
}
static Snap snapshot(XSock *x) {
    Snap s;
    ApiScope a("xcm_attr_get_all", x, x->nonblocking);
    xcm_attr_get_all(x->s, [](const char *name, enum xcm_attr_type t, void *v, size_t len, void *d) {
        if (is_volatile(name)) return;
        ((Snap *)d)->kv.emplace_back(name, std::string(1, (char)('0' + (int)t)) + std::string((const char *)v, len));
    }, &s);
    return s;
}

static size_t type_size(enum xcm_attr_type t) { return t == xcm_attr_type_bool ? sizeof(bool) : t == xcm_attr_type_int64 ? 8 : t == xcm_attr_type_double ? 8 : 0; }

static void probe_get(ASock &as, Rng &r) {
    XSock *x = as.x;
    std::vector<std::string> now = names_now(x);
    std::string name;
    int src = (int)r.below(10);
    if (src < 5 && !now.empty()) name = now[r.below(now.size())];
    else if (src < 8) name = CATALOGUE[r.below(NCAT)];
    else name = weird_name(r);
    // the value's true size, with a generous buffer
    std::vector<uint8_t> big(70000);
    enum xcm_attr_type type = (enum xcm_attr_type)77;
    errno = 0;
    int full = x_attr_get(x, name.c_str(), &type, big.data(), big.size());
    bool exists = full >= 0;
    G->count("probe.attr_get");
    // every capacity of interest, with a heap buffer of exactly that size (one byte too many written = ASan report)
    size_t caps[] = {0, 1, 2, 7, 8, 9, 512, 4096, exists && full > 0 ? (size_t)full - 1 : 3, exists ? (size_t)full : 5, exists ? (size_t)full + 1 : 6};
    size_t cap = caps[r.below(11)];
    int api = (int)r.below(8);
    std::unique_ptr<uint8_t[]> buf(new uint8_t[cap]);
    memset(buf.get(), 0xA5, cap);
    int rc = -2, e = 0;
    enum xcm_attr_type t2 = (enum xcm_attr_type)77;
    G->logf("probe_get %s name=\"%s\" api=%d cap=%zu (value size %d)", x->label.c_str(), name.substr(0, 80).c_str(), api, cap, full);
    {
        ApiScope a("xcm_attr_get*", x, x->nonblocking);
        errno = 0;
        switch (api) {
        case 0: case 1: case 2: rc = xcm_attr_get(x->s, name.c_str(), &t2, buf.get(), cap); break;
        case 3: rc = xcm_attr_get_str(x->s, name.c_str(), (char *)buf.get(), cap); break;
        case 4: rc = xcm_attr_get_bin(x->s, name.c_str(), buf.get(), cap); break;
        case 5: rc = xcm_attr_getf(x->s, &t2, buf.get(), cap, "%s", name.c_str()); break;
        case 6: rc = xcm_attr_getf_str(x->s, (char *)buf.get(), cap, "%s", name.c_str()); break;
        case 7: rc = xcm_attr_get_list_len(x->s, name.c_str()); break;
        }
        e = errno;
    }
    if (api == 7) return;   // list length: only crashes and ASan matter
    if (rc >= 0) {
        if ((size_t)rc > cap)
            G->violation("C10.rc_exceeds_capacity", "%s: attribute \"%s\" read with capacity %zu returned %d", x->label.c_str(), name.substr(0, 60).c_str(), cap, rc);
        // bytes beyond the returned length must be untouched
        for (size_t i = (size_t)std::max(rc, 0); i < cap; i++)
            if (buf[i] != 0xA5) { G->violation("C10.wrote_beyond_rc", "%s: attribute \"%s\" (capacity %zu) returned %d but byte %zu of the buffer was modified", x->label.c_str(), name.substr(0, 60).c_str(), cap, rc, i); break; }
        if (exists && (api <= 2 || api == 5) && rc != full && !is_volatile(name) && type != xcm_attr_type_str)
            G->violation("C10.rc_not_value_size", "%s: attribute \"%s\" has a %d-byte value, a read with capacity %zu returned %d", x->label.c_str(), name.substr(0, 60).c_str(), full, cap, rc);
    } else if (exists && (api <= 2 || api == 5) && !is_volatile(name)) {
        if (cap >= (size_t)full)
            G->violation("C10.spurious_failure", "%s: attribute \"%s\" (value %d bytes) read with capacity %zu failed with %s", x->label.c_str(), name.substr(0, 60).c_str(), full, cap, strerror(e));
        else if (e != EOVERFLOW)
            G->violation("C10.errno", "%s: attribute \"%s\" (value %d bytes) read with capacity %zu failed with %s, expected EOVERFLOW", x->label.c_str(), name.substr(0, 60).c_str(), full, cap, strerror(e));
    }
    if (exists && cap < (size_t)full && rc >= 0 && (api <= 2 || api == 5) && type != xcm_attr_type_str)
        G->violation("C10.overflow_not_reported", "%s: attribute \"%s\" needs %d bytes; a read with capacity %zu returned %d instead of EOVERFLOW", x->label.c_str(), name.substr(0, 60).c_str(), full, cap, rc);
    // typed getters: exactly sizeof(type); of another type: ENOENT
    if (exists && r.chance(0.5)) {
        std::unique_ptr<uint8_t[]> tb(new uint8_t[8]);
        std::unique_ptr<uint8_t[]> bb(new uint8_t[sizeof(bool)]);
        int trc, te;
        int which = (int)r.below(3);
        {
            ApiScope a("xcm_attr_get_<type>", x, x->nonblocking);
            errno = 0;
            if (which == 0) trc = xcm_attr_get_bool(x->s, name.c_str(), (bool *)bb.get());
            else if (which == 1) trc = xcm_attr_get_int64(x->s, name.c_str(), (int64_t *)tb.get());
            else trc = xcm_attr_get_double(x->s, name.c_str(), (double *)tb.get());
            te = errno;
        }
        enum xcm_attr_type want = which == 0 ? xcm_attr_type_bool : which == 1 ? xcm_attr_type_int64 : xcm_attr_type_double;
        if (type != want && trc >= 0)
            G->violation("C10.typed_getter_wrong_type", "%s: attribute \"%s\" is of type %d, the typed getter for type %d succeeded", x->label.c_str(), name.substr(0, 60).c_str(), (int)type, (int)want);
        if (type != want && trc < 0 && te != ENOENT)
            G->violation("C10.errno", "%s: typed getter of another type on \"%s\" failed with %s, expected ENOENT", x->label.c_str(), name.substr(0, 60).c_str(), strerror(te));
        if (type == want && trc != (int)type_size(want) && !is_volatile(name))
            G->violation("C10.typed_getter", "%s: typed getter on \"%s\" returned %d (%s)", x->label.c_str(), name.substr(0, 60).c_str(), trc, trc < 0 ? strerror(te) : "");
    }
}

// a set that must be rejected, and must change nothing
static void probe_bad_set(ASock &as, Rng &r) {
    XSock *x = as.x;
    Snap before = snapshot(x);
    std::string name;
    int kind = (int)r.below(6);
    int want_errno = 0;
    int rc, e;
    int64_t i64 = (int64_t)r.below(1000);
    {
        ApiScope a("xcm_attr_set", x, x->nonblocking);
        errno = 0;
        switch (kind) {
        case 0: name = r.chance(0.5) ? "no.such.attr" : weird_name(r); rc = xcm_attr_set_int64(x->s, name.c_str(), i64); want_errno = -1; break;            // ENOENT (EINVAL for malformed names)
        case 1: { static const char *ro[] = {"xcm.type", "xcm.transport", "xcm.to_app_bytes", "xcm.max_msg_size", "xcm.remote_addr"}; name = ro[r.below(5)]; rc = xcm_attr_set_int64(x->s, name.c_str(), i64); want_errno = EACCES; break; }
        case 2: name = "xcm.blocking"; rc = xcm_attr_set(x->s, name.c_str(), xcm_attr_type_int64, &i64, sizeof(i64)); want_errno = EINVAL; break;                 // wrong type
        case 3: name = "xcm.blocking"; { bool b[2] = {true, true}; rc = xcm_attr_set(x->s, name.c_str(), xcm_attr_type_bool, b, 2); } want_errno = EINVAL; break;   // wrong length
        case 4: name = as.tcp_based ? "tcp.keepalive_count" : "xcm.blocking"; if (as.tcp_based) rc = xcm_attr_set_int64(x->s, name.c_str(), -(int64_t)(1 + r.below(9))); else rc = xcm_attr_set_str(x->s, name.c_str(), "x"); want_errno = EINVAL; break;
        default: name = "xcm.service"; rc = xcm_attr_set_str(x->s, name.c_str(), "bogus"); want_errno = -2; break;                                              // EINVAL or EACCES (creation-only)
        }
        e = errno;
    }
    G->count("probe.attr_bad_set");
    if (rc == 0) { G->violation("C10.bad_set_accepted", "%s: xcm_attr_set(\"%s\") with an invalid %s succeeded", x->label.c_str(), name.substr(0, 60).c_str(), kind == 0 ? "name" : kind == 1 ? "target (read-only)" : "type, length or value"); return; }
    // (an attribute that does not exist on this kind of socket is ENOENT whatever else is wrong with the call)
    bool ok = e == ENOENT || (want_errno == -1 ? (e == EINVAL || e == EACCES) : want_errno == -2 ? (e == EINVAL || e == EACCES) : (e == want_errno || (kind == 4 && e == EACCES)));
    if (!ok) G->violation("C10.errno", "%s: rejected xcm_attr_set(\"%s\") failed with %s", x->label.c_str(), name.substr(0, 60).c_str(), strerror(e));
    Snap after = snapshot(x);
    if (before.kv != after.kv) {
        std::string diff;
        for (size_t i = 0; i < std::min(before.kv.size(), after.kv.size()); i++) if (before.kv[i] != after.kv[i]) { diff = before.kv[i].first; break; }
        G->violation("C10.rejected_set_side_effect", "%s: a rejected xcm_attr_set(\"%s\") changed the socket's attributes (first difference: %s)", x->label.c_str(), name.substr(0, 60).c_str(), diff.c_str());
    }
}

// ------------------------------------------------------------------ C11 sets
struct WAttr { const char *name; int kind; int64_t lo, hi; bool creation_only; };   // kind 0 int64, 1 bool
static const WAttr TCP_ATTRS[] = {
    {"tcp.keepalive", 1, 0, 1, false}, {"tcp.keepalive_time", 0, 1, 300, false}, {"tcp.keepalive_interval", 0, 1, 100, false},
    {"tcp.keepalive_count", 0, 1, 20, false}, {"tcp.user_timeout", 0, 1, 600, false},
};

static void set_good(ASock &as, Rng &r, const char *phase) {
    XSock *x = as.x;
    if (!as.tcp_based) return;
    const WAttr &w = TCP_ATTRS[r.below(5)];
    int64_t v = r.range(w.lo, w.hi);
    // now and then a value XCM's own range check admits but the kernel refuses (Linux: idle/interval <= 32767, count <= 127)
    bool beyond_kernel = r.chance(0.12) && w.kind == 0 && std::string(w.name) != "tcp.user_timeout";
    if (beyond_kernel) v = std::string(w.name) == "tcp.keepalive_count" ? 128 + (int64_t)r.below(1000) : 32768 + (int64_t)r.below(100000);
    // the user timeout is handed to the kernel in milliseconds: values around the point where that no longer fits an int
    if (std::string(w.name) == "tcp.user_timeout" && r.chance(0.15)) { static const int64_t edge[] = {2147483, 2147484, 4294968, 2000000000, 2147483647}; v = edge[r.below(5)]; }
    Snap before = snapshot(x);
    int rc, e;
    {
        ApiScope a("xcm_attr_set", x, x->nonblocking);
        errno = 0;
        rc = w.kind == 1 ? xcm_attr_set_bool(x->s, w.name, v != 0) : xcm_attr_set_int64(x->s, w.name, v);
        e = errno;
    }
    G->count("probe.attr_good_set");
    G->logf("set %s=%lld on %s during %s -> %d %s", w.name, (long long)v, x->label.c_str(), phase, rc, rc < 0 ? strerror(e) : "");
    if (rc == 0 && std::string(w.name) == "tcp.user_timeout" && v * 1000 > 2147483647LL)
        G->violation("C10.bad_value_accepted", "%s: xcm_attr_set(\"tcp.user_timeout\", %lld) during %s succeeded although the value cannot be represented in the milliseconds the kernel option takes", x->label.c_str(), (long long)v, phase);
    if (rc == 0) { Expect &ex = as.exp[w.name]; ex.have = true; ex.i = v; ex.b = v != 0; return; }
    // refused (e.g. the kernel rejected the value on a connected socket): nothing may have changed
    Snap after = snapshot(x);
    if (before.kv != after.kv) {
        std::string diff;
        for (size_t i = 0; i < std::min(before.kv.size(), after.kv.size()); i++) if (before.kv[i] != after.kv[i]) { diff = before.kv[i].first; break; }
        G->violation("C10.rejected_set_side_effect", "%s: xcm_attr_set(\"%s\", %lld) during %s failed with %s but changed the socket's attributes (%s)", x->label.c_str(), w.name, (long long)v, phase, strerror(e), diff.c_str());
    }
}

// where the connection attempt stands, read from the simulated kernel
static const char *kernel_phase(XSock *x) {
    bool syn = false, est = false;
    for (auto &kv : K->fdt[1]) {
        if (kv.second.owner != x) continue;
        if (auto t = std::dynamic_pointer_cast<TcpSock>(kv.second.f)) { if (t->st == TcpSock::SYN_SENT) syn = true; if (t->st == TcpSock::EST) est = true; }
        if (auto u = std::dynamic_pointer_cast<UnixSock>(kv.second.f)) if (u->st == UnixSock::CONNECTED) est = true;
    }
    return est ? "connection established" : syn ? "TCP connection attempt in progress" : "no TCP connection attempt yet";
}

// creation-only attributes written later: EACCES, nothing changes
static void set_creation_only_late(ASock &as, Rng &r, const char *phase) {
    XSock *x = as.x;
    static const char *names[] = {"xcm.service", "xcm.local_addr", "tcp.connect_timeout", "dns.algorithm", "tls.auth", "tls.check_time", "tls.client", "tls.cert_file", "tls.verify_peer_name"};
    std::string name = names[r.below(9)];
    bool tlsb = as.tp == "tls" || as.tp == "btls" || as.tp == "utls" || as.tp == "utls_tls";
    if (name.compare(0, 4, "tls.") == 0 && !tlsb) return;
    if ((name.compare(0, 4, "tcp.") == 0 || name.compare(0, 4, "dns.") == 0) && !as.tcp_based) return;
    Snap before = snapshot(x);
    int rc, e;
    {
        ApiScope a("xcm_attr_set", x, x->nonblocking);
        errno = 0;
        if (name == "xcm.service") rc = xcm_attr_set_str(x->s, name.c_str(), "any");
        else if (name == "xcm.local_addr") rc = xcm_attr_set_str(x->s, name.c_str(), (as.tp == "utls_tls" ? std::string("utls") : as.tp).append(":127.0.0.1:0").c_str());
        else if (name == "tcp.connect_timeout") rc = xcm_attr_set_double(x->s, name.c_str(), 7.5);
        else if (name == "dns.algorithm") rc = xcm_attr_set_str(x->s, name.c_str(), "sequential");
        else if (name == "tls.cert_file") rc = xcm_attr_set_str(x->s, name.c_str(), "/cert/b/cert.pem");
        else rc = xcm_attr_set_bool(x->s, name.c_str(), false);
        e = errno;
    }
    G->count("probe.attr_late_creation_only");
    if (rc == 0) { G->violation("C11.creation_only_writable", "%s: attribute \"%s\" (writable only at creation) was accepted during %s (kernel: %s)", x->label.c_str(), name.c_str(), phase, kernel_phase(x)); return; }
    bool present = false;
    for (auto &n : names_now(x)) if (n == name) present = true;
    if (e != EACCES && !(e == ENOENT && !present)) G->violation("C11.creation_only_errno", "%s: writing \"%s\" during %s failed with %s, expected EACCES", x->label.c_str(), name.c_str(), phase, strerror(e));
    Snap after = snapshot(x);
    if (before.kv != after.kv) G->violation("C11.creation_only_side_effect", "%s: the refused write of \"%s\" during %s changed the socket's attributes", x->label.c_str(), name.c_str(), phase);
}

// what xcm_attr_get reports == what was accepted; what the kernel socket has == what was accepted
static void verify_effect(ASock &as, const char *phase, bool kernel_too) {
    XSock *x = as.x;
    if (!x || x->closed || !as.tcp_based) return;
    for (auto &kv : as.exp) {
        if (!kv.second.have) continue;
        if (kv.first == "tcp.keepalive") {
            bool b = false;
            ApiScope a("xcm_attr_get_bool", x, x->nonblocking);
            if (xcm_attr_get_bool(x->s, kv.first.c_str(), &b) < 0 || b != kv.second.b)
                G->violation("C11.get_after_set", "%s (%s): %s was accepted as %d, xcm_attr_get reports %d", x->label.c_str(), phase, kv.first.c_str(), (int)kv.second.b, (int)b);
        } else {
            int64_t v = -1;
            ApiScope a("xcm_attr_get_int64", x, x->nonblocking);
            if (xcm_attr_get_int64(x->s, kv.first.c_str(), &v) < 0 || v != kv.second.i)
                G->violation("C11.get_after_set", "%s (%s): %s was accepted as %lld, xcm_attr_get reports %lld", x->label.c_str(), phase, kv.first.c_str(), (long long)kv.second.i, (long long)v);
        }
    }
    if (!kernel_too) return;
    auto t = std::dynamic_pointer_cast<TcpSock>(x_kernel_conn(x));
    if (!t) return;
    G->count("probe.kernel_opts_verified");
    struct { const char *name; int level, opt; int64_t scale; } m[] = {
        {"tcp.keepalive", SOL_SOCKET, SO_KEEPALIVE, 1}, {"tcp.keepalive_time", IPPROTO_TCP, TCP_KEEPIDLE, 1}, {"tcp.keepalive_interval", IPPROTO_TCP, TCP_KEEPINTVL, 1},
        {"tcp.keepalive_count", IPPROTO_TCP, TCP_KEEPCNT, 1}, {"tcp.user_timeout", IPPROTO_TCP, TCP_USER_TIMEOUT, 1000}};
    // defaults when never set: keepalive on, 1, 1, 3, user timeout 3 s
    int64_t defs[] = {1, 1, 1, 3, 3};
    for (int i = 0; i < 5; i++) {
        auto it = as.exp.find(m[i].name);
        int64_t want = (it != as.exp.end() && it->second.have) ? (i == 0 ? (int64_t)it->second.b : it->second.i) : defs[i];
        int64_t have = t->opt(m[i].level, m[i].opt, -1);
        if (have != want * m[i].scale)
            G->violation("C11.not_in_force", "%s (%s): %s = %lld was accepted%s, but the underlying connection has the option at %lld (expected %lld)", x->label.c_str(), phase, m[i].name, (long long)want,
                         (it != as.exp.end() && it->second.have) ? "" : " by default", (long long)have, (long long)(want * m[i].scale));
    }
}

static void pump(int rounds) {
    uint8_t buf[256];
    for (int i = 0; i < rounds && !G->stopping; i++) {
        for (ASock *as : {&AX->cli, &AX->acc}) {
            if (!as->x || as->x->closed) continue;
            x_finish(as->x);
            x_receive(as->x, buf, sizeof(buf));
        }
        task_sleep(2 * MS);
    }
}

static void phase_rounds(const Op &op, const char *phase, std::vector<ASock *> socks) {
    Rng &r = AX->r;
    for (int k = 0; k < (int)op.arg(0); k++) {
        for (ASock *as : socks) {
            if (!as->x || as->x->closed || !as->x->s) continue;
            int c = (int)r.below(10);
            if (c < 5) probe_get(*as, r);
            else if (c < 7) probe_bad_set(*as, r);
            else if (c < 9) { if (as->x->is_server && strcmp(phase, "fresh_server") != 0) continue; set_good(*as, r, phase); }
            else if (!as->x->is_server || strcmp(phase, "fresh_server") != 0) set_creation_only_late(*as, r, phase);
        }
    }
}

static struct xcm_attr_map *creation_map(ASock &as, Rng &r, bool stream) {
    struct xcm_attr_map *m = xcm_attr_map_create();
    if (stream) xcm_attr_map_add_str(m, "xcm.service", "bytestream");
    if (as.tcp_based)
        for (auto &w : TCP_ATTRS)
            if (r.chance(0.4)) {
                int64_t v = r.range(w.lo, w.hi);
                if (w.kind == 1) xcm_attr_map_add_bool(m, w.name, v != 0); else xcm_attr_map_add_int64(m, w.name, v);
                Expect &ex = as.exp[w.name]; ex.have = true; ex.i = v; ex.b = v != 0;
            }
    return m;
}

static void program(const Plan *pl) {
    Rng &r = AX->r;
    std::string tp = AX->tp == "utls_tls" ? "utls" : AX->tp;
    bool stream = tp == "btcp" || tp == "btls";
    bool tcpb = tp != "ux" && tp != "uxf";
    AX->srv.tp = AX->cli.tp = AX->acc.tp = AX->tp;
    AX->srv.tcp_based = false;   // tcp.* exist on connection sockets only
    AX->cli.tcp_based = AX->acc.tcp_based = tcpb && (tp != "utls" || AX->tp == "utls_tls");
    std::string saddr = tp == "ux" ? "ux:attr-srv" : tp == "uxf" ? "uxf:/tmp/attr.sock" : strf("%s:127.0.0.1:7100", tp.c_str());
    std::string caddr = saddr;
    if (tcpb && pl->P("use_dns")) caddr = strf("%s:srv.example:7100", tp.c_str());
    // ---- server, with attributes its accepted sockets inherit
    struct xcm_attr_map *sm = creation_map(AX->srv, r, stream);
    AX->srv.x = x_server(saddr, sm, true, "srv");
    xcm_attr_map_destroy(sm);
    if (!AX->srv.x->s) { G->violation("HARNESS.server", "attr family: xcm_server(%s) failed: %s", saddr.c_str(), strerror(errno)); return; }
    const Op *ops[5] = {nullptr, nullptr, nullptr, nullptr, nullptr};
    for (auto &op : pl->ops) {
        if (op.kind != "phase") continue;
        if (op.s == "fresh_server") ops[0] = &op; else if (op.s == "after_connect") ops[1] = &op; else if (op.s == "mid") ops[2] = &op; else if (op.s == "established") ops[3] = &op; else if (op.s == "peer_closed") ops[4] = &op;
    }
    if (ops[0]) phase_rounds(*ops[0], "fresh_server", {&AX->srv});
    // ---- client: creation map, then held in resolving / connecting
    struct xcm_attr_map *cm = creation_map(AX->cli, r, stream);
    std::string want_src;
    if (tcpb && pl->P("local_addr")) { want_src = "127.0.0.1"; xcm_attr_map_add_str(cm, "xcm.local_addr", strf("%s:127.0.0.1:0", tp.c_str()).c_str()); }
    {
        Task *t = cur();
        int saved = t->netns;
        if (AX->tp == "utls_tls") t->netns = 1;   // no UX name in this namespace: the TLS leg is taken
        AX->cli.x = x_connect(caddr, cm, true, "cli");
        t->netns = saved;
    }
    xcm_attr_map_destroy(cm);
    if (!AX->cli.x->s) { G->violation("HARNESS.connect", "attr family: xcm_connect(%s) failed: %s", caddr.c_str(), strerror(errno)); x_close(AX->srv.x); return; }
    if (ops[1]) phase_rounds(*ops[1], "resolving/connecting", {&AX->cli, &AX->srv});
    verify_effect(AX->cli, "connecting", false);
    // a little progress (resolution done, SYN out, possibly TLS handshake begun), then more probing
    pump(1 + (int)r.below(3));
    if (ops[2]) phase_rounds(*ops[2], "connecting/handshaking", {&AX->cli});
    // ---- establish
    for (int i = 0; i < 60 && !AX->acc.x && !G->stopping; i++) {
        struct xcm_attr_map *am = nullptr;
        if (pl->P("accept_override") && AX->acc.tcp_based) {
            am = xcm_attr_map_create();
            xcm_attr_map_add_int64(am, "tcp.keepalive_time", 77);
        }
        // the mode of the new connection named in the map: a blocking connection off this non-blocking server
        bool want_blocking = pl->P("accept_blocking") != 0;
        if (want_blocking) { if (!am) am = xcm_attr_map_create(); xcm_attr_map_add_bool(am, "xcm.blocking", true); }
        XSock *a = x_accept(AX->srv.x, am, "acc");
        if (am) xcm_attr_map_destroy(am);
        if (a) {
            if (want_blocking) {
                bool b = false;
                { ApiScope sc("xcm_attr_get_bool", a, false); if (xcm_attr_get_bool(a->s, "xcm.blocking", &b) < 0 || !b) G->violation("C11.not_in_force", "xcm_accept_a with xcm.blocking=true in the map returned a connection whose xcm.blocking reads %s", b ? "true" : "false (or fails)"); }
                x_set_blocking(a, false);   // one thread hosts both ends from here on
            }
            AX->acc.x = a;
            // inherited from the server socket, unless overridden
            if (AX->acc.tcp_based && AX->srv.tcp_based) AX->acc.exp = AX->srv.exp;
            if (pl->P("accept_override") && AX->acc.tcp_based) { Expect &ex = AX->acc.exp["tcp.keepalive_time"]; ex.have = true; ex.i = 77; }
        } else pump(1);
    }
    if (!AX->acc.x) { G->note("attr family: connection was never accepted"); x_close(AX->cli.x); x_close(AX->srv.x); return; }
    pump(6);
    if (ops[3]) phase_rounds(*ops[3], "established", {&AX->cli, &AX->acc, &AX->srv});
    pump(2);
    bool est = x_finish(AX->cli.x) == 0 && x_finish(AX->acc.x) == 0;
    if (est) {
        verify_effect(AX->cli, "established", true);
        verify_effect(AX->acc, "established (accepted socket)", true);
        // xcm.local_addr decides the source address the listener's side sees
        if (!want_src.empty()) {
            auto t = std::dynamic_pointer_cast<TcpSock>(x_kernel_conn(AX->acc.x));
            if (t && t->remote.ipstr() != want_src)
                G->violation("C11.local_addr", "xcm.local_addr asked for source %s, the accepted connection's peer address is %s", want_src.c_str(), t->remote.str().c_str());
        }
        // xcm.blocking is the same switch as xcm_set_blocking
        bool b = true;
        { ApiScope a("xcm_attr_get_bool", AX->cli.x, true); xcm_attr_get_bool(AX->cli.x->s, "xcm.blocking", &b); }
        if (b) G->violation("C11.blocking_switch", "cli: created with xcm.blocking=false, the attribute reads true");
        x_set_blocking(AX->cli.x, true);
        { ApiScope a("xcm_attr_get_bool", AX->cli.x, false); xcm_attr_get_bool(AX->cli.x->s, "xcm.blocking", &b); }
        if (!b) G->violation("C11.blocking_switch", "cli: after xcm_set_blocking(true) the attribute xcm.blocking reads false");
        { ApiScope a("xcm_attr_set_bool", AX->cli.x, false); xcm_attr_set_bool(AX->cli.x->s, "xcm.blocking", false); }
        AX->cli.x->nonblocking = true;
        { ApiScope a("xcm_is_blocking", AX->cli.x, true); if (xcm_is_blocking(AX->cli.x->s)) G->violation("C11.blocking_switch", "cli: xcm.blocking=false was accepted but xcm_is_blocking() says blocking"); }
    }
    // ---- peer closes
    x_close(AX->acc.x);
    pump(4);
    if (ops[4]) phase_rounds(*ops[4], "peer_closed", {&AX->cli, &AX->srv});
    x_close(AX->cli.x);
    x_close(AX->srv.x);
}

static void setup(const Plan &plan) {
    delete AX;
    AX = new ACtx();
    AX->tp = plan.S("tp", "tcp");
    AX->r = Rng((uint64_t)plan.P("s_probe", 7));
    install_basic_tls_files("/cert");
    K->mkdir_p("/tmp");
    if (plan.P("ctl")) { K->mkdir_p("/ctl"); K->env["XCM_CTL"] = "/ctl"; }
    (*DNS)["srv.example"] = DnsAnswer{{"127.0.0.1"}, plan.P("dns_delay_ms", 1) * MS, 0};
    const Plan *pl = &G->plan;
    G->spawn("app", [pl] { program(pl); }, 1, 0);
}

static void finalize(const Plan &plan, EndReason r) {
    if (r == EndReason::QUIESCENT) G->violation("HARNESS.attr_stuck", "attr program stuck: %s", G->tasks[0]->parked_why.c_str());
    else if (r == EndReason::BUDGET) G->violation("C10.spin", "step budget exhausted during attribute probing (%llu steps)", (unsigned long long)G->steps);
    g_run_nontrivial = G->stat.count("probe.attr_get") > 0;
    (void)plan;
}

static struct Reg_attr { Reg_attr() { register_family(Family{"attr", gen, setup, finalize, nullptr, nullptr}); } } reg;

}  // namespace xs
