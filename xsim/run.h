// Running one plan: set-up of Sim/Kernel from the plan's knobs, family dispatch, shared end-of-run
// monitors (conservation), result record.
#pragma once
#include "xapi.h"
#include "hooks.h"

namespace xs {

struct Result;
struct Family {
    const char *name;
    void (*gen)(uint64_t seed, const std::string &prop, Plan &plan);
    void (*setup)(const Plan &plan);                 // configure kernel/FS, spawn tasks
    void (*finalize)(const Plan &plan, EndReason r); // end-of-run oracles (before unwinding)
    void (*after_unwind)(const Plan &plan);          // optional: after all tasks have ended
    // optional: fault enumeration. Given the base plan and the result of its fault-free reference
    // execution (with the record of every fallible lower call), produce the variant plans.
    void (*variants)(const Plan &base, const struct Result &ref, std::vector<Plan> &out, size_t cap);
};
void register_family(const Family &f);
Plan threads_warmup_plan();   // fam_threads.cc
const Family *find_family(const std::string &name);

struct Result {
    std::string verdict;         // "ok" | "violation"
    std::vector<Violation> violations;
    uint64_t trace_hash = 0;
    Time sim_ns = 0;
    uint64_t steps = 0, switches = 0;
    std::string end_reason;
    bool nontrivial = false;
    std::map<std::string, int64_t> stat;
    std::vector<std::string> notes;
    std::vector<KCallRec> calls;   // reference executions only (plan knob record_calls)
    Json to_json() const;
};

void gen_common_knobs(Rng &r, Plan &plan, bool faults);   // buffers, latency, segmentation, yields, ambient faults
Result run_plan(const Plan &plan, bool verbose);

// helpers shared by families
void install_basic_tls_files(const std::string &dir);      // cert.pem/key.pem/tc.pem of basic_pki leaf_a
struct xcm_attr_map *tls_attrs_for(const std::string &who); // by-file attrs naming leaf "a" or "b"
extern bool g_run_nontrivial;                              // families set this by their own rule
void check_conservation(const char *when);                 // C08 shared monitor

}  // namespace xs
