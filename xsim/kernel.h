// xsim simulated Linux kernel: descriptors, stream/seqpacket sockets, epoll, eventfd, timerfd,
// poll, file system, environment, clocks, fault injection. Single-threaded by construction
// (only the baton holder runs), so there is no locking anywhere.
#pragma once
#include "sim.h"
#include <sys/socket.h>
#include <sys/stat.h>
#include <netinet/in.h>
#include <poll.h>
#include <dirent.h>
#include <unordered_map>

namespace xs {

constexpr int FD_BASE = 1000;

struct Addr {
    int family = 0;            // AF_INET / AF_INET6 / AF_UNIX
    uint8_t ip[16] = {};
    uint16_t port = 0;
    uint32_t scope = 0;
    std::string un;            // AF_UNIX: name (without leading NUL for abstract)
    bool un_abstract = false;
    bool un_unnamed = true;
    std::string ipstr() const;
    std::string str() const;
    bool is_wildcard() const;
    bool same_ip(const Addr &o) const { return family == o.family && memcmp(ip, o.ip, 16) == 0; }
    static Addr from_sockaddr(const struct sockaddr *sa, socklen_t len);
    socklen_t to_sockaddr(struct sockaddr *sa, socklen_t cap) const;  // returns full length
    static Addr ip4(const char *dotted, uint16_t port);
    static Addr parse_ip(const std::string &text, uint16_t port);
};

enum class HostKind { LOCAL, REFUSE, BLACKHOLE, UNREACH_HOST, UNREACH_NET };
struct Host { HostKind kind = HostKind::LOCAL; Time latency = -1; };

struct Pipe;  // one direction of a stream connection

struct KFile : std::enable_shared_from_this<KFile> {
    enum Kind { TCP, UNIX, EPOLL, EVENTFD, TIMERFD, STUB } kind;
    uint64_t id = 0;
    bool nonblock = false;
    int open_fds = 0;
    explicit KFile(Kind k) : kind(k) {}
    virtual ~KFile() {}
    virtual short poll_mask() = 0;
    virtual void last_close() {}
};

struct Pipe {
    std::deque<uint8_t> rq;      // delivered to the receiver's queue, unread
    std::deque<uint8_t> flight;  // accepted from the sender, not yet delivered
    size_t cap = 65536;
    bool fin_sent = false, fin_delivered = false;
    Time last_deliver = 0;
    uint64_t accepted = 0, delivered = 0, consumed = 0;
    bool blackholed = false;     // partition: segments are held
    size_t held = 0;             // bytes whose delivery event fired while blackholed
    int64_t cut_at = -1;         // fault: after this many accepted bytes the sender "dies"
    int cut_mode = 0;            // 1 FIN, 2 RST, 3 silence
    bool cut_done = false;
    Time oldest_unacked = -1;
    size_t used() const { return rq.size() + flight.size(); }
    size_t space() const { size_t u = used(); return u >= cap ? 0 : cap - u; }
};

struct TcpSock : KFile {
    TcpSock() : KFile(TCP) {}
    int family = AF_INET;
    int netns = 0;
    Addr local, remote;
    bool bound = false, port_locked = false, addr_locked = false;
    enum St { FRESH, LISTEN, SYN_SENT, EST, DISCONNECTED } st = FRESH;
    int so_error = 0;            // pending error (reported once)
    int killed_by = 0;           // errno with which the connection was killed (RST seen, timeout), 0 while alive
    bool dead = false;           // RST seen / timed out: no more traffic
    bool closed = false;         // all descriptors closed (orphan kept for in-flight handling)
    bool ever_connected = false;
    std::shared_ptr<Pipe> in, out;
    std::weak_ptr<TcpSock> peer;
    std::deque<std::shared_ptr<TcpSock>> acceptq;
    int backlog = 0;
    std::map<int, int> opts;     // (level<<16 | optname) -> value as last set
    uint64_t conn_gen = 0;
    Time last_activity = 0;
    int syn_tries = 0;
    bool rst_sent = false;
    std::shared_ptr<TcpSock> closed_peer;   // the other end after its owner closed it: kept so that data sent to it is still answered with a reset
    bool async_connect_pending_report = false;   // a non-blocking connect completed: the next connect() call reports 0 once, later ones EISCONN
    short poll_mask() override;
    void last_close() override;
    int opt(int level, int name, int def) const { auto i = opts.find((level << 16) | name); return i == opts.end() ? def : i->second; }
};

struct UnixSock : KFile {
    UnixSock() : KFile(UNIX) {}
    int netns = 0;
    enum St { FRESH, BOUND, LISTEN, CONNECTED, DISCONNECTED } st = FRESH;
    Addr local;
    bool passcred = false;
    std::deque<std::string> rq;
    size_t rq_bytes = 0;
    size_t max_msgs = 16, max_bytes = 212992;
    std::weak_ptr<UnixSock> peer;
    bool peer_closed = false;     // orderly: peer closed, nothing of ours unread
    bool reset_pending = false;   // peer closed while our messages were unread: ECONNRESET first
    bool closed = false;
    std::deque<std::shared_ptr<UnixSock>> acceptq;
    int backlog = 0;
    Time rcvtimeo = 0, sndtimeo = 0;
    uint64_t msgs_in = 0, msgs_out = 0;
    short poll_mask() override;
    void last_close() override;
};

struct EpollFile : KFile {
    EpollFile() : KFile(EPOLL) {}
    struct Reg { std::weak_ptr<KFile> f; uint32_t events; };
    std::map<int, Reg> regs;
    short poll_mask() override;
    void last_close() override;
};
struct EventFd : KFile {
    EventFd() : KFile(EVENTFD) {}
    uint64_t counter = 0;
    short poll_mask() override { return (counter > 0 ? POLLIN : 0) | POLLOUT; }
};
struct TimerFd : KFile {
    TimerFd() : KFile(TIMERFD) {}
    bool armed = false;
    Time expiry = 0;
    short poll_mask() override;
};
struct StubFd : KFile {   // pollable whose readiness the harness controls (resolver stub)
    StubFd() : KFile(STUB) {}
    short mask = 0;
    short poll_mask() override { return mask; }
};

struct FdEnt {
    std::shared_ptr<KFile> f;
    bool lib_created = false;   // created by library code (inside an XCM / xcmc API call)
    void *owner = nullptr;      // XCM socket on whose behalf it was created
    int creator_task = 0;
};

struct FsNode {
    enum T { DIR, REG, LNK, SOCK } type = REG;
    std::string data;           // file content / link target
    uint64_t ino = 0, dev = 1;
    Time mtime = 0;
    int mode = 0644;
    std::weak_ptr<UnixSock> sock;
};

struct KCallRec {   // record of a fallible kernel call (reference executions for fault enumeration)
    int task; std::string call; int nth_in_op; int op_index; int fd; int64_t res; int err;
};

struct Kernel {
    // configuration (from the plan)
    size_t tcp_buf = 65536;
    size_t ux_max_msgs = 16;
    Time base_latency = 50 * US, jitter = 0;
    int seg_policy = 0;            // 0 whole, 1 halves, 2 random chunks, 3 byte-wise head (header split), 4 all byte-wise
    double p_short_write = 0, p_short_read = 0, p_eagain_send = 0, p_eagain_recv = 0, p_delay = 0, p_eintr = 0;
    bool linux_writeable_rule = true;
    Time mtime_gran = 1;           // ns granularity of file mtimes
    // state
    std::map<int, std::map<int, FdEnt>> fdt;   // pid -> fd table
    std::map<std::string, Host> hosts;
    std::vector<std::weak_ptr<TcpSock>> tcps;
    std::vector<std::weak_ptr<UnixSock>> uxs;
    std::vector<std::weak_ptr<EpollFile>> epolls;
    std::map<std::string, FsNode> fs;
    std::map<std::string, std::string> env;
    uint64_t next_id = 1, next_ino = 100;
    int next_port = 40000;
    int next_autobind = 1;
    // resource-call fault enumeration
    int64_t rescall_index = 0;                 // global index of resource-creating calls
    int64_t fail_rescall_at = -1; int fail_rescall_errno = 0;
    int64_t fail_rescall_at2 = -1; int fail_rescall_errno2 = 0;
    // wire cut (fault): after cut_at accepted bytes of direction cut_dir (0: connector->acceptor, 1: reverse)
    // of the cut_conn-th established TCP connection the sending host "dies" (mode 1 FIN, 2 RST, 3 silence)
    int64_t cut_at = -1; int cut_mode = 0; int cut_dir = -1; int cut_conn = 0; int conn_count = 0;
    std::vector<std::pair<int, Addr>> connect_log;   // (task id, destination) of every TCP connect() issued
    std::function<void(const char *path)> on_lib_fopen;   // somebody else changes the file system at the instant the library opens a file
    bool child_mode = false;   // this process is the forked child of the C08 cleanup scenario: owner-visible calls are violations
    bool record_calls = false;
    std::vector<KCallRec> callrec;
    int cur_op_index = -1;
    // accounting
    std::unordered_map<void *, size_t> allocs;   // live blocks allocated by library code (never iterated where order could matter)
    size_t live_bytes = 0, peak_bytes = 0;
    int64_t ssl_ctx_balance = 0, ssl_balance = 0;
    bool track_allocs = true;

    Kernel();
    FdEnt *ent(int fd);
    std::shared_ptr<KFile> file(int fd);
    template <class T> std::shared_ptr<T> as(int fd) { return std::dynamic_pointer_cast<T>(file(fd)); }
    int install(std::shared_ptr<KFile> f);
    Host host_for(const Addr &a) const;
    Time latency_for(const Addr &a);
    // file system helpers (harness side)
    void mkdir_p(const std::string &path);
    void write_file(const std::string &path, const std::string &data, bool new_inode = false);
    void rename_over(const std::string &from, const std::string &to);
    void symlink(const std::string &target, const std::string &linkpath);
    void remove_path(const std::string &path);
    bool resolve(const std::string &path, bool follow_last, std::string &out, int depth = 0);
    std::vector<std::string> list_dir(const std::string &path);
    // inspection helpers for oracles
    int lib_fd_count(int pid = 1);
    std::string fd_dump(int pid = 1);
    bool epoll_ready(int epfd);
    std::string epoll_dump(int epfd);
    bool conn_idle_tcp(const std::shared_ptr<TcpSock> &s);
    // fault helpers
    void partition(const std::shared_ptr<TcpSock> &s, bool on);
    void kill_peer_rst(const std::shared_ptr<TcpSock> &victim);
};

extern Kernel *K;

// arm/disarm explicit faults for the op the calling task is about to run
void arm_faults(const std::vector<Fault> &f, int op_index);
void disarm_faults();

// the simulated system calls (errno conventions as libc)
namespace k {
int socket(int domain, int type, int proto);
int bind(int fd, const struct sockaddr *sa, socklen_t len);
int listen(int fd, int backlog);
int connect(int fd, const struct sockaddr *sa, socklen_t len);
int accept4(int fd, struct sockaddr *sa, socklen_t *len, int flags);
ssize_t send(int fd, const void *buf, size_t len, int flags);
ssize_t recv(int fd, void *buf, size_t len, int flags);
int close(int fd);
int getsockname(int fd, struct sockaddr *sa, socklen_t *len);
int getpeername(int fd, struct sockaddr *sa, socklen_t *len);
int getsockopt(int fd, int level, int name, void *val, socklen_t *len);
int setsockopt(int fd, int level, int name, const void *val, socklen_t len);
int fcntl(int fd, int cmd, long arg);
int poll(struct pollfd *fds, nfds_t n, int timeout_ms);
int epoll_create1(int flags);
int epoll_ctl(int epfd, int op, int fd, void *ev);
int eventfd(unsigned initval, int flags);
int timerfd_create(int clockid, int flags);
int timerfd_settime(int fd, int flags, const struct itimerspec *nv, struct itimerspec *ov);
int clock_gettime(int clk, struct timespec *ts);
int stat(const char *path, struct stat *st, bool follow);
FILE *fopen(const char *path, const char *mode);
int unlink(const char *path);
void *opendir(const char *path);
struct dirent *readdir(void *d);
int closedir(void *d);
char *getenv(const char *name);
}  // namespace k

}  // namespace xs
