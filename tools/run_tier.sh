#!/bin/bash
# Runs one tier of the checks of the given properties one after the other (each uses all cores), keeps each log and a copy of
# the evidence file under evidence/<tier>/ and prints one summary line per property.
# usage: tools/run_tier.sh quick|thorough C01 C02 ...
cd "$(dirname "$0")/.." || exit 2
T=$1; shift
mkdir -p evidence/$T
for p in "$@"; do
    s=$(date +%s)
    ./check $p --tier $T > evidence/$T/$p.log 2>&1; rc=$?
    cp -f evidence/$p.json evidence/$T/$p.json 2>/dev/null
    echo "$p $T exit=$rc $(( $(date +%s) - s ))s $(grep -c '^VIOLATION' evidence/$T/$p.log) violation(s) $(grep -c '^KNOWN-FINDING' evidence/$T/$p.log) known; $(grep " $T:" evidence/$T/$p.log | cut -c1-160)"
    grep -E "^VIOLATION|^MACHINERY|^  oracle" evidence/$T/$p.log | cut -c1-300
done
