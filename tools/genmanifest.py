#!/usr/bin/env python3
# Generates MANIFEST.json from tools/props.py (single source of truth for claimed checks).
import json, os, sys, subprocess
sys.path.insert(0, os.path.dirname(os.path.abspath(__file__)))
from props import PROPS
import manifest_text as T

V = os.path.dirname(os.path.dirname(os.path.abspath(__file__)))
checks = []
for pid in sorted(PROPS):
    c = PROPS[pid]
    checks.append({
        "property_id": pid,
        "quick_cmd": "./check %s --tier quick" % pid,
        "thorough_cmd": "./check %s --tier thorough" % pid,
        "evidence_file": "/verif/evidence/%s.json" % pid,
        "replay_cmd_template": "./check %s --replay {path} --verbose" % pid,
        "engine": "xsim",
        "level_claimed": {"category": c["level"], "text": T.LEVEL_TEXT[pid], "design_ref": "DESIGN.md section 3 (%s) and addendum" % pid},
        "level_note": T.LEVEL_NOTE.get(pid, T.DEFAULT_NOTE),
        "technique": T.TECHNIQUE.get(pid, "deterministic simulation with fault injection: seeded search over schedules x fault sequences x generated workloads on a simulated kernel"),
    })
na = [{"property_id": k, "reason": v} for k, v in sorted(T.NOT_APPLICABLE.items()) if k not in PROPS]
try:
    hooks = subprocess.run(["git", "-C", "/repo", "log", "--format=%H %s", "--grep=^verif hook"], stdout=subprocess.PIPE, text=True).stdout.strip().splitlines()
except Exception:
    hooks = []
m = {
    "version": 1,
    "setup_cmd": "make -C /verif -s -j16 FLAVOUR=asan && make -C /verif -s -j16 FLAVOUR=tsan",
    "hooks": {
        "guard": "ERICSSON_XCM_VERIF",
        "enable": "/verif/Makefile compiles every XCM source from /repo's working tree with -DERICSSON_XCM_VERIF (the repository's own autotools build never defines it)",
        "baseline_off_cmd": "cd /repo && make -j8 xcmtest && ./xcmtest",
        "source_commits": [h.split()[0] for h in hooks],
        "add_only": True,
    },
    "engines": [{
        "name": "xsim", "path": "/verif/xsim",
        "serves_properties": sorted(PROPS),
        "kind_free_text": "deterministic simulator: real libxcm/libxcmctl/xcmrelay objects linked with -Wl,--wrap onto a simulated Linux kernel (sockets, epoll, timers, FS, clocks), real threads released one at a time by a seeded scheduler, seeded fault injection, plan files as replay, ddmin minimisation (driver: /verif/check)",
    }],
    "checks": checks,
    "not_applicable": na,
    "notes": T.NOTES,
}
json.dump(m, open(os.path.join(V, "MANIFEST.json"), "w"), indent=1)
print("MANIFEST.json: %d checks, %d not claimed" % (len(checks), len(na)))
