#!/usr/bin/env python3
# import_mutant.py <prop> <letter> "<needs>" "<detected-by>"  : copies a confirmed seeded change into /verif/seeded/<prop>-<letter>/
import sys, os, shutil, json, re
prop, letter, needs, detected = sys.argv[1:5]
src = "%s/%s/%s" % (os.environ.get("MUT_ROOT", "/tmp/mut"), prop, letter)
dst = "/verif/seeded/%s-%s" % (prop, letter)
os.makedirs(dst, exist_ok=True)
shutil.copyfile(src + "/patch.diff", dst + "/patch.diff")
if os.path.isdir(dst + "/demo"): shutil.rmtree(dst + "/demo")
shutil.copytree(src + "/demo", dst + "/demo", ignore=shutil.ignore_patterns("*.o", "demo", "a.out", "*.pem", "*.log", "cert*", "build*"))
if os.path.exists(src + "/notes.md"): shutil.copyfile(src + "/notes.md", dst + "/notes.md")
ver = open(src + "/verify.out").read() if os.path.exists(src + "/verify.out") else ""
files = re.findall(r"^\+\+\+ b/(\S+)", open(src + "/patch.diff").read(), re.M)
meta = {"id": "%s-%s" % (prop, letter), "breaks_property": prop, "files": files, "needs_to_manifest": needs,
        "confirmed": {"how": "tools/verify_mutant.sh in a scratch worktree of /repo: patch applies, builds, the repository's suite (./xcmtest -c -v -p 8) passes modulo the sandbox's known-bad tests, demo/run.sh exits 0 on the unmodified tree and non-zero with the change",
                      "log_tail": ver.strip().splitlines()[-6:]},
        "checks": detected}
json.dump(meta, open(dst + "/meta.json", "w"), indent=1)
print(dst)
