import sys,json,collections
c=collections.Counter(); n=0
for l in sys.stdin:
    if not l.startswith('END'): continue
    _,seed,js=l.split(' ',2)
    j=json.loads(js); n+=1
    for v in j['violations']:
        k=v['oracle']
        if c[k]<2: print(seed,j['end'],j['steps'],v['oracle'],v['detail'][:400])
        c[k]+=1
print(n,'runs',dict(c))
