#!/usr/bin/env python3
# Generates xcm_version.h from xcm_version.h.in + configure.ac (what configure would do).
import re, sys
repo = sys.argv[1]
ac = open(repo + "/configure.ac").read()
def d(name):
    m = re.search(r"m4_define\(\[%s\],\s*\[?([^\]\)]+)\]?\)" % name, ac)
    return m.group(1).strip()
major, minor, patch = d("xcm_major_version"), d("xcm_minor_version"), d("xcm_patch_version")
abi_major = str(int(major) - 1)
abi_minor = d("xcm_abi_minor_version")
sub = {
    "XCM_MAJOR_VERSION": major, "XCM_MINOR_VERSION": minor, "XCM_PATCH_VERSION": patch,
    "XCM_VERSION": "%s.%s.%s" % (major, minor, patch),
    "XCM_ABI_MAJOR_VERSION": abi_major, "XCM_ABI_MINOR_VERSION": abi_minor,
    "XCM_ABI_VERSION": "%s.%s" % (abi_major, abi_minor),
}
t = open(repo + "/include/xcm_version.h.in").read()
for k, v in sub.items():
    t = t.replace("@%s@" % k, v)
sys.stdout.write(t)
