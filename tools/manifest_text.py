DEFAULT_NOTE = ("Trusted base: the simulated kernel's fidelity to Linux (DESIGN.md 2.2/appendix A), the c-ares/libevent stubs, the harness oracles; "
                "sampling, not proof. Real: all libxcm code from the working tree, system OpenSSL.")
NOTES = ("All checks rebuild the xsim binary from /repo's working tree on every invocation (make, incremental). A check reports only its own property's oracles; "
         "oracles of other properties seen in passing are listed as side observations in the evidence file. Known findings: /verif/known_findings.json.")
LEVEL_TEXT = {
    "C01": "Seeded search: thousands of generated conversations per minute on every messaging transport with the lower layer splitting, delaying and refusing individual reads and writes; every receive is compared with a reference FIFO of accepted messages. Evidence of absence of delivery errors over the explored schedules/fault patterns, not a proof.",
    "C02": "Seeded search over byte-stream conversations (btcp/btls) with self-identifying bytes, partial acceptance, refusals below XCM and below OpenSSL and three retry policies; the received stream is compared byte-exactly with the concatenation of accepted ranges at every receive.",
    "C03": "Fault enumeration: for every sampled conversation each lower-layer write and each blocking wait made by any operation is made to refuse (EAGAIN, short write + EAGAIN) or be interrupted (EINTR) in a run of its own; a reference FIFO decides exactly-once delivery and a counter snapshot decides 'no trace'. Complete for single faults within each sampled scenario (up to the stated cap), seeded over scenarios and schedules.",
    "C06": "Fault enumeration: for every sampled conversation each errno of the property's list is injected at each lower read/write index, the peer host dies at each wire byte offset (FIN/RST/silence) and either side closes abruptly before each operation, each in a run of its own, followed by >= 3 rounds of send/receive/finish; a terminal-state reference automaton (delivered prefix, then 0/EPIPE or a sticky errno) judges every API result. Complete for single faults within each sampled scenario (up to the stated cap), seeded over scenarios and schedules.",
    "C04": "Exact lost-wake-up detector: the simulation ends either with every task finished or at global quiescence; since the generated conversations are deadlock-free by construction, an unfinished task at quiescence means a descriptor failed to become readable when it had to. Seeded search over schedules, buffer sizes, segmentation and connection phases.",
    "C05": "Monitor on the simulated kernel over every run: any call that may sleep made inside an API call on a non-blocking socket is a violation regardless of whether it would have been satisfied at once.",
    "C07": "Seeded search over hostile byte strings and their fragmentation against a real single-threaded XCM application; a reference frame decoder decides what must be delivered and how the connection must end, sanitizers and the abort trap decide memory safety, the allocation wraps decide the buffering bound, and healthy neighbour connections of the same thread must be unaffected.",
    "C08": "Fault enumeration: every resource-creating system call of every sampled lifecycle program is made to fail with each plausible errno in a run of its own, a real fork()+xcm_cleanup is placed at every operation boundary, pairs of failures are sampled; conservation of descriptors, heap, OpenSSL objects and files, the foreign-descriptor monitor and the abort trap decide. Complete for single faults within each sampled program (up to the stated cap).",
    "C10": "Seeded search over (socket phase x attribute name x API variant x capacity): the phases a socket can be held in only under a simulator (resolving, SYN pending, handshaking) are part of the space; exact-size heap buffers under ASan, canaries, errno table and before/after attribute snapshots decide.",
    "C11": "Seeded search over (attribute x admissible value x phase x socket role); the decisive observation is the simulated kernel socket's option table and peer address at a quiescent point, compared with the values the API accepted.",
    "C13": "Seeded search over resolver answers x per-address network behaviour x algorithm x timeouts x event-loop style, in simulated time (minutes of connect and DNS timeouts cost microseconds); an executable reference model of single / sequential / happy-eyeballs decides outcome, errno, legal connect() order and deadline.",
    "C16": "Readiness read directly from the simulated epoll object; spin compression turns a permanently readable descriptor without progress into an exact verdict; xcm_fd stability sampled around every API call.",
    "C17": "Ledger comparison after every API call over generated traffic histories incl. truncation, refusal, partial flush.",
}
LEVEL_NOTE = {}
TECHNIQUE = {}
NOT_APPLICABLE = {
    "C12": "pure codec (xcm_addr_make_*/parse_*): a function of its arguments with no schedule, clock, fault or second party - nothing for a simulator to control (DESIGN.md 3, C12)",
    "C19": "sequential ADT (xcm_attr_map) and pure parser (attr_path): no schedule, clock, fault or interleaving; reference-model equivalence over operation histories is input generation, not simulation (DESIGN.md 3, C19)",
    "C09": "check not built yet at this commit (planned: generated PKI x policy matrix, DESIGN.md 3 C09)",
    "C14": "check not built yet at this commit (planned: raw and libxcmctl control clients, DESIGN.md 3 C14)",
    "C15": "check not built yet at this commit (planned: real threads under the seeded scheduler with ThreadSanitizer, DESIGN.md 3 C15)",
    "C18": "check not built yet at this commit (planned: simulated file-system histories x connection set-up, DESIGN.md 3 C18)",
    "C20": "check not built yet at this commit (planned: real xcmrelay sources as a task of the simulation, DESIGN.md 3 C20)",
}
