DEFAULT_NOTE = ("Trusted base: the simulated kernel's fidelity to Linux (DESIGN.md 2.2/appendix A), the c-ares/libevent stubs, the harness oracles; "
                "sampling, not proof. Real: all libxcm code from the working tree, system OpenSSL.")
NOTES = ("All checks rebuild the xsim binary from /repo's working tree on every invocation (make, incremental). A check reports only its own property's oracles; "
         "oracles of other properties seen in passing are listed as side observations in the evidence file. Known findings: /verif/known_findings.json.")
LEVEL_TEXT = {
    "C01": "Seeded search: thousands of generated conversations per minute on every messaging transport with the lower layer splitting, delaying and refusing individual reads and writes; every receive is compared with a reference FIFO of accepted messages. Evidence of absence of delivery errors over the explored schedules/fault patterns, not a proof.",
    "C02": "Seeded search over byte-stream conversations (btcp/btls) with self-identifying bytes, partial acceptance, refusals below XCM and below OpenSSL and three retry policies; the received stream is compared byte-exactly with the concatenation of accepted ranges at every receive.",
    "C04": "Exact lost-wake-up detector: the simulation ends either with every task finished or at global quiescence; since the generated conversations are deadlock-free by construction, an unfinished task at quiescence means a descriptor failed to become readable when it had to. Seeded search over schedules, buffer sizes, segmentation and connection phases.",
    "C05": "Monitor on the simulated kernel over every run: any call that may sleep made inside an API call on a non-blocking socket is a violation regardless of whether it would have been satisfied at once.",
    "C16": "Readiness read directly from the simulated epoll object; spin compression turns a permanently readable descriptor without progress into an exact verdict; xcm_fd stability sampled around every API call.",
    "C17": "Ledger comparison after every API call over generated traffic histories incl. truncation, refusal, partial flush.",
}
LEVEL_NOTE = {}
TECHNIQUE = {}
NOT_APPLICABLE = {
    "C12": "pure codec (xcm_addr_make_*/parse_*): a function of its arguments with no schedule, clock, fault or second party - nothing for a simulator to control (DESIGN.md 3, C12)",
    "C19": "sequential ADT (xcm_attr_map) and pure parser (attr_path): no schedule, clock, fault or interleaving; reference-model equivalence over operation histories is input generation, not simulation (DESIGN.md 3, C19)",
    "C03": "check not built yet at this commit (planned: failure-point enumeration of every send, DESIGN.md 3 C03)",
    "C06": "check not built yet at this commit (planned: errno x call-index and crash-point x wire-offset enumeration, DESIGN.md 3 C06)",
    "C07": "check not built yet at this commit (planned: hostile raw peer, DESIGN.md 3 C07)",
    "C08": "check not built yet at this commit (planned: lifecycle programs with resource-call fault enumeration, DESIGN.md 3 C08)",
    "C09": "check not built yet at this commit (planned: generated PKI x policy matrix, DESIGN.md 3 C09)",
    "C10": "check not built yet at this commit (planned: attribute probes at scheduler-chosen points, DESIGN.md 3 C10)",
    "C11": "check not built yet at this commit (planned: attribute sets at every life point, DESIGN.md 3 C11)",
    "C13": "check not built yet at this commit (planned: stub resolver + per-address network behaviour, DESIGN.md 3 C13)",
    "C14": "check not built yet at this commit (planned: raw and libxcmctl control clients, DESIGN.md 3 C14)",
    "C15": "check not built yet at this commit (planned: real threads under the seeded scheduler with ThreadSanitizer, DESIGN.md 3 C15)",
    "C18": "check not built yet at this commit (planned: simulated file-system histories x connection set-up, DESIGN.md 3 C18)",
    "C20": "check not built yet at this commit (planned: real xcmrelay sources as a task of the simulation, DESIGN.md 3 C20)",
}
