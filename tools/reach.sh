#!/bin/bash
# Reach measurement (DESIGN.md 2.8): builds the coverage flavour from /repo's working tree, runs every family
# for a short budget, merges the profiles and prints line coverage per XCM source file plus the unexecuted
# functions of the files the properties are anchored in. Writes evidence/reach.json and evidence/reach.txt.
# usage: tools/reach.sh [seconds per family, default 60]
cd "$(dirname "$0")/.." || exit 2
BUDGET=${1:-60}
make -s -j16 FLAVOUR=cov || exit 2
PROF=build/cov/prof
mkdir -p $PROF evidence
find $PROF -name '*.profraw' -delete
i=0
for fp in conv:C01 conv:C02 conv:C04 conv:C16 conv:C17 term:C06 term:C03 hostile:C07 life:C08 attr:C10 attr:C11 dns:C13 ctl:C14 relay:C20 tls:C09 tls:C18 threads:C15; do
    f=${fp%%:*}; p=${fp##*:}; i=$((i+1))
    LLVM_PROFILE_FILE=$PROF/$f-$p-%p.profraw ./build/cov/xsim run --family $f --prop $p --base $((i*100000+1)) --count 100000 \
        --deadline $(( $(date +%s) + BUDGET )) > build/cov/$f-$p.out 2>/dev/null &
done
wait
llvm-profdata-14 merge -sparse $PROF/*.profraw -o build/cov/merged.profdata || exit 2
OBJS=$(find build/cov/repo -name '*.o' | sed 's/^/-object /' | tr '\n' ' ')
llvm-cov-14 report ./build/cov/xsim -instr-profile=build/cov/merged.profdata $(find /repo/libxcm /repo/common /repo/libxcmctl /repo/tools/xcmrelay -name '*.c' -o -name '*.h' | tr '\n' ' ') 2>/dev/null > evidence/reach.txt
llvm-cov-14 report ./build/cov/xsim -instr-profile=build/cov/merged.profdata -show-functions $(find /repo/libxcm /repo/common /repo/libxcmctl /repo/tools/xcmrelay -name '*.c' | tr '\n' ' ') 2>/dev/null > build/cov/functions.txt
python3 - <<'EOF'
import json, re
rows = []
for l in open('evidence/reach.txt'):
    sp = l.split()
    if len(sp) >= 10 and sp[0].endswith(('.c', '.h')):
        # Filename Regions Missed Cover Functions Missed Executed Lines Missed Cover ...
        rows.append({"file": sp[0], "functions": int(sp[4]), "functions_missed": int(sp[5]), "lines": int(sp[7]), "lines_missed": int(sp[8]), "line_cover": sp[9]})
missed = {}
cur = None
for l in open('build/cov/functions.txt'):
    m = re.match(r"File '(.*)':", l)
    if m:
        cur = m.group(1).replace('/repo/', '')
        continue
    sp = l.split()
    if cur and len(sp) >= 7 and sp[0] not in ('Name', 'TOTAL') and not sp[0].startswith('-'):
        try:
            if int(sp[1]) > 0 and sp[3] == '0.00%':
                missed.setdefault(cur, []).append(sp[0])
        except ValueError:
            pass
runs = {}
import glob
for f in glob.glob('build/cov/*-C*.out'):
    runs[f.split('/')[-1][:-4]] = sum(1 for l in open(f) if l.startswith('END '))
json.dump({"what": "line coverage of XCM sources by all simulation families together (coverage flavour, -O0)", "runs": runs, "files": rows, "functions_never_executed": missed}, open('evidence/reach.json', 'w'), indent=1)
tot = sum(r["lines"] for r in rows); mis = sum(r["lines_missed"] for r in rows)
print("reach: %d files, %d lines, %.1f %% executed; functions never executed: %d" % (len(rows), tot, 100.0 * (tot - mis) / max(1, tot), sum(len(v) for v in missed.values())))
EOF
