#!/bin/bash
# Applies a seeded change to /repo, runs one property's check against it, and undoes it straight afterwards.
# usage: mutrun.sh <patch.diff> <prop> [budget seconds]
P=$1; PROP=$2; B=${3:-40}
cd /repo || exit 9
if [ -n "$(git status --porcelain --untracked-files=no)" ]; then echo "repo not clean"; exit 9; fi
git apply "$P" 2>/dev/null || git apply -3 "$P" 2>/dev/null || patch -p1 -s < "$P" || { echo "APPLY-FAILED"; git checkout -q -- .; exit 9; }
git reset -q 2>/dev/null
cd /verif
cp -f evidence/$PROP.json /tmp/mutrun.$$.evidence 2>/dev/null   # (the evidence file of the unchanged tree is put back afterwards)
./check $PROP --tier quick --budget $B > /tmp/mutrun.$$.out 2>&1; rc=$?
[ -f /tmp/mutrun.$$.evidence ] && mv -f /tmp/mutrun.$$.evidence evidence/$PROP.json
grep -E "^VIOLATION|^  oracle|^KNOWN|MACHINERY|quick:" /tmp/mutrun.$$.out | cut -c1-260
echo "check exit=$rc"
git -C /repo checkout -q -- .
rm -f /tmp/mutrun.$$.out /repo/*.orig /repo/*.rej
