#!/bin/bash
# Confirms a seeded change in a scratch worktree: applies cleanly, builds, demo fails with it,
# the repository's suite still passes (modulo the sandbox's known-bad tests), demo passes without it.
# usage: verify_mutant.sh <worktree> <dir with patch.diff and demo/run.sh> <outfile>
WT=$1; D=$2; OUT=$3
KNOWN="xcm:btcp_dns_timeout xcm:btls_dns_timeout xcm:dns_algorithm_smoke_test xcm:dns_multiple_address_probing xcm:tcp_connect_timeout xcm:tcp_dns_timeout xcm:tls_dns_timeout xcm:utls_dns_timeout xcm:dns xcm:tls_invalid_credential_values xcm:net_ns_switch"
{
cd $WT || exit 9
git checkout -q -- . 
[ -f configure ] || autoreconf -i >/dev/null 2>&1
[ -f Makefile ] || ./configure >/dev/null 2>&1
make -j8 xcmtest >/dev/null 2>&1 || { echo "RESULT clean-build-failed"; exit 1; }
bash $D/demo/run.sh $WT >/tmp/vm.$$.clean 2>&1; c=$?
echo "demo on clean tree: exit $c"
git apply $D/patch.diff || { echo "RESULT patch-does-not-apply"; exit 1; }
make -j8 xcmtest > /tmp/vm.$$.build 2>&1 || { echo "RESULT build-failed"; tail -5 /tmp/vm.$$.build; git checkout -q -- .; exit 1; }
grep -c "warning:" /tmp/vm.$$.build
bash $D/demo/run.sh $WT >/tmp/vm.$$.mut 2>&1; m=$?
echo "demo with change: exit $m"; tail -3 /tmp/vm.$$.mut
./xcmtest -c -v -p 8 > /tmp/vm.$$.suite 2>&1
fails=$(grep -E "FAILED|TIMED OUT|CRASHED" /tmp/vm.$$.suite | grep -oE "(xcm|addr|attr_map|attr_path|attr_tree|slist):[a-z0-9_]+" | sort -u)
bad=""
for t in $fails; do case " $KNOWN " in *" $t "*) ;; *) bad="$bad $t";; esac; done
# a failure outside the known list is retried alone once (load-dependent tests)
still=""
for t in $bad; do ./xcmtest -c -v $t >/tmp/vm.$$.one 2>&1 || still="$still $t"; done
echo "suite: failing outside known list:$bad ; still failing alone:$still"
tail -3 /tmp/vm.$$.suite
git checkout -q -- .
make -j8 xcmtest >/dev/null 2>&1
if [ $c -eq 0 ] && [ $m -ne 0 ] && [ -z "$still" ]; then echo "RESULT confirmed"; else echo "RESULT not-confirmed (clean=$c mut=$m still=$still)"; fi
rm -f /tmp/vm.$$.*
} > $OUT 2>&1
