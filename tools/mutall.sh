#!/bin/bash
# Regression over every seeded change: applies each to /repo, runs the quick check of the property that is meant to catch it,
# undoes it. Prints one line per change. (Nothing else may use /repo's working tree meanwhile.)
# usage: tools/mutall.sh [budget seconds, default 45] [name ...]
cd "$(dirname "$0")/.." || exit 2
B=${1:-45}; shift
names="$@"; [ -z "$names" ] && names=$(ls seeded)
for n in $names; do
    p=${n%%-*}
    case $n in C04-d) p=C08;; C02-d) p=C06;; esac
    out=$(tools/mutrun.sh /verif/seeded/$n/patch.diff $p $B 2>&1 | grep -v conda)
    rc=$(echo "$out" | grep -o "check exit=[0-9]*" | tail -1)
    or=$(echo "$out" | grep -o "oracle=[A-Za-z0-9_.]*" | sort -u | tr '\n' ' ')
    echo "$n under $p: $rc $or"
done
make -s -j16 FLAVOUR=asan >/dev/null 2>&1; make -s -j16 FLAVOUR=tsan >/dev/null 2>&1
