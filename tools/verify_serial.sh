#!/bin/bash
# Confirms seeded changes one after the other (the repository's suite must not run twice at the same time: its tests share ports
# and names). For each <prop>: worktree /tmp/wt-<prop>-<letter>, change in $MUT_ROOT/<prop>/<letter> (patch.diff, demo/run.sh).
# usage: verify_serial.sh <letter> <prop> ...
L=$1; shift
MUT_ROOT=${MUT_ROOT:-/tmp/mut}
KNOWN="xcm:btcp_dns_timeout xcm:btls_dns_timeout xcm:dns_algorithm_smoke_test xcm:dns_multiple_address_probing xcm:tcp_connect_timeout xcm:tcp_dns_timeout xcm:tls_dns_timeout xcm:utls_dns_timeout xcm:dns xcm:tls_invalid_credential_values xcm:net_ns_switch xcm:tls_per_namespace_cert"
for p in "$@"; do
  WT=/tmp/wt-$p-$L; D=$MUT_ROOT/$p/$L; OUT=$D/verify.out; T=/tmp/vs.$$
  {
  cd $WT || exit 9
  git checkout -q -- .; make -j8 >/dev/null 2>&1; make -j8 xcmtest >/dev/null 2>&1
  sh $D/demo/run.sh $WT >/dev/null 2>&1; c=$?; echo "demo on clean tree: exit $c"
  git apply $D/patch.diff || echo "RESULT patch-does-not-apply"
  { make -j8 && make -j8 xcmtest; } >$T.build 2>&1 || echo "RESULT build-failed"
  echo "warnings: $(grep -c 'warning:' $T.build)"
  sh $D/demo/run.sh $WT >$T.mut 2>&1; m=$?; echo "demo with change: exit $m"; tail -2 $T.mut
  ./xcmtest -c -v -p 6 > $T.suite 2>&1
  fails=$(grep -E "FAILED|TIMED OUT|CRASHED" $T.suite | grep -oE "(xcm|addr|attr_map|attr_path|attr_tree|slist):[a-z0-9_]+" | sort -u)
  bad=""; for t in $fails; do case " $KNOWN " in *" $t "*) ;; *) bad="$bad $t";; esac; done
  still=""; for t in $bad; do ./xcmtest -c -v $t >/dev/null 2>&1 || still="$still $t"; done
  echo "suite: failing outside known list:$bad ; still failing alone:$still"
  grep "tests run in" $T.suite
  complete=$(grep -c "tests run in" $T.suite)
  git checkout -q -- .; make -j8 >/dev/null 2>&1
  if [ $c -eq 0 ] && [ $m -ne 0 ] && [ -z "$still" ] && [ $complete -ge 1 ]; then echo "RESULT confirmed"; else echo "RESULT not-confirmed (clean=$c mut=$m still=$still complete=$complete)"; fi
  rm -f $T.*
  } > $OUT 2>&1
  echo "$p-$L: $(tail -1 $OUT)"
done
